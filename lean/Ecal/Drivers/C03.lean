import Ecal.Drivers.Util
import Ecal.Model.Expr
import Ecal.Model.ExprLex
import Ecal.Gen.C03
/-!
Driver of C03. Payload (space separated), see `go/cmd/harness/c03.go`:
  `<src-hex> <conv> <tok;tok;…> <ftext|-> <regex|->`
  tok   = `<NAME>:<val-hex>:<line>[:<bits-hex>]`
  conv  = `int64(NaN),int64(+huge),int64(-huge)` of the platform
  ftext = `<bits-hex>:<text-hex>,…` (fmt.Sprint of floats)   regex = `<subj-hex>:<pat-hex>:<T|F|X>,…`
Result: `<tree> <outcome>` — the tree `Impl.parse` builds with the generated table and what
`Impl.eval` computes (numbers: `Float`, compared by bit pattern).
-/
namespace Ecal.Drv.C03
open Ecal.Drv Ecal.Expr

def hexNat (s : String) : Option Nat :=
  s.toList.foldlM (fun acc c => (hexVal c).map (acc * 16 + ·)) 0

def binOpOfName : String → Option BinOp
  | "GEQ" => some .geq | "LEQ" => some .leq | "NEQ" => some .neq | "EQ" => some .eq
  | "GT" => some .gt | "LT" => some .lt
  | "PLUS" => some .plus | "MINUS" => some .minus | "TIMES" => some .times | "DIV" => some .div
  | "DIVINT" => some .divint | "MODINT" => some .modint
  | "AND" => some .and | "OR" => some .or
  | "LIKE" => some .like | "IN" => some .isin | "HASPREFIX" => some .hasprefix
  | "HASSUFFIX" => some .hassuffix | "NOTIN" => some .notin | "ASSIGN" => some .assign
  | _ => none

def parseTok (s : String) : Option LTok :=
  match s.splitOn ":" with
  | name :: val :: line :: rest => do
    let v ← hexDecode val
    let ln ← line.toNat?
    let tk : TK ←
      match name, rest with
      | "NUMBER", [bits] => (hexNat bits).map fun b => TK.atom (.num v b)
      | "NUMBER", _ => none
      | "STRING", _ => some (.atom (.str v))
      | "IDENTIFIER", _ => some (.atom (.ident v))
      | "TRUE", _ => some (.atom (.tru v))
      | "FALSE", _ => some (.atom (.fls v))
      | "NULL", _ => some (.atom (.null v))
      | "LPAREN", _ => some .lp
      | "RPAREN", _ => some .rp
      | "LBRACK", _ => some .lb
      | "RBRACK", _ => some .rb
      | "COMMA", _ => some .comma
      | "EOF", _ => some .eof
      | "NOT", _ => some (.not v)
      | n, _ => some (match binOpOfName n with
                      | some o => .op o v
                      | none => .other (strBytes n))
    some ⟨tk, ln⟩
  | _ => none

/-! ### the `Float` instance of the numeric carrier -/

structure Tables where
  convNaN : Int
  convPos : Int
  convNeg : Int
  ftext : List (Nat × Str)
  regex : List (Str × Str × Option Bool)

def isNaN (x : Float) : Bool := x.isNaN

/-- bit pattern with all NaNs identified -/
def fbits (x : Float) : Nat := if x.isNaN then 0x7ff8000000000000 else x.toBits.toNat

def missingText : Str := [63, 77, 73, 83, 83]  -- "?MISS"

def toInt64 (tb : Tables) (x : Float) : Int :=
  if x.isNaN then tb.convNaN
  else if x ≥ 9223372036854775808.0 then tb.convPos
  else if x < -9223372036854775808.0 then tb.convNeg
  else x.toInt64.toInt

/-- the truncation of a finite float as an exact integer -/
def truncInt (x : Float) : Option Int :=
  if x.isNaN || x.isInf then none
  else
    let (m, e) := x.frExp
    let mi : Int := (m * 9007199254740992.0).toInt64.toInt
    if e ≥ 53 then some (mi * 2 ^ (e - 53).toNat) else some (Int.tdiv mi (2 ^ (53 - e).toNat))

def floatNum (tb : Tables) : Num Float where
  inInt64 := fun x => match truncInt x with
    | some i => decide (-9223372036854775808 ≤ i ∧ i < 9223372036854775808)
    | none => false
  wideMod := fun a b => match truncInt a, truncInt b with
    | some x, some y => if y = 0 then none else some (Float.ofInt (Int.tmod x y))
    | _, _ => none
  ofBits := fun b => Float.ofBits b.toUInt64
  add := (· + ·)
  sub := (· - ·)
  mul := (· * ·)
  div := (· / ·)
  neg := Float.neg
  floor := Float.floor
  lt := fun a b => a < b
  le := fun a b => a ≤ b
  eq := fun a b => a == b
  toInt := toInt64 tb
  ofInt := fun i => (Int64.ofInt i).toFloat
  text := fun x => match tb.ftext.find? (·.1 = fbits x) with
    | some (_, t) => t
    | none => missingText

/-- the fixed environment (the same values are set in `c03Scope`) -/
def envVar : Str → Val Float := fun n =>
  if n = strBytes "a" then .num 1.0
  else if n = strBytes "b" then .str (strBytes "x")
  else if n = strBytes "c" then .bool true
  else if n = strBytes "d" then .null
  else if n = strBytes "l" then .list 1 false (.cons (.num 1.0) (.cons (.str (strBytes "x")) .nil))
  else if n = strBytes "n" then .num (-2.5)
  else if n = strBytes "s" then .str (strBytes "10")
  else if n = strBytes "f" then .bool false
  else if n = strBytes "m" then
    .list 2 false (.cons (.list 3 false (.cons (.num 1.0) .nil)) (.cons .null (.cons (.bool true) .nil)))
  else .null

def cfg (tb : Tables) : Cfg Float where
  C := floatNum tb
  re := fun s p => match tb.regex.find? (fun e => e.1 = s ∧ e.2.1 = p) with
    | some (_, _, r) => r
    | none => none
  var := envVar

/-! ### printing -/

def binName : BinOp → String
  | .geq => "geq" | .leq => "leq" | .neq => "neq" | .eq => "eq" | .gt => "gt" | .lt => "lt"
  | .plus => "plus" | .minus => "minus" | .times => "times" | .div => "div"
  | .divint => "divint" | .modint => "modint" | .and => "and" | .or => "or"
  | .like => "like" | .isin => "in" | .hasprefix => "hasprefix" | .hassuffix => "hassuffix"
  | .notin => "notin" | .assign => "assign"

def preName : PreOp → String
  | .neg => "minus" | .pos => "plus" | .not => "not"

def atomName : Atom → String
  | .num .. => "num" | .str _ => "str" | .ident _ => "ident"
  | .tru _ => "true" | .fls _ => "false" | .null _ => "null"

mutual
def showTree : Expr → String
  | .atom a => atomName a
  | .list .nil => "list"
  | .list its => "(list" ++ showItems its ++ ")"
  | .bin o _ l r => "(" ++ binName o ++ "," ++ showTree l ++ "," ++ showTree r ++ ")"
  | .pre p _ x => "(" ++ preName p ++ "," ++ showTree x ++ ")"
def showItems : Items → String
  | .nil => ""
  | .cons e rest => "," ++ showTree e ++ showItems rest
end

def hex16 (n : Nat) : String :=
  let s := hexEncode ((List.range 8).reverse.map fun i => (n / 256 ^ i) % 256)
  s

mutual
def showVal : Val Float → String
  | .null => "n"
  | .bool true => "t"
  | .bool false => "f"
  | .num x => if x.isNaN then "Nnan" else "N" ++ hex16 x.toBits.toNat
  | .str s => "S" ++ hexEnc s
  | .list _ _ vs => "L(" ++ showVals vs ++ ")"
def showVals : Vals Float → String
  | .nil => ""
  | .cons v .nil => showVal v
  | .cons v rest => showVal v ++ "," ++ showVals rest
end

def errName : ErrKind → String
  | .notANumber => "NotANumber" | .notABoolean => "NotABoolean" | .notAList => "NotAList"
  | .runtime => "RuntimeError"

def showNode : Option Nat → String
  | none => "self"
  | some i => toString i

def showOut : Out Float → String
  | .val v => "V " ++ showVal v
  | .err .runtime _ p => "E RuntimeError - " ++ showNode p
  | .err k n p => "E " ++ errName k ++ " " ++ hexEnc n ++ " " ++ showNode p

/-! ### coverage of the oracle tables: every float the model prints and every pair it
    matches must have an entry (otherwise the case is reported, never guessed) -/

mutual
def valFloats : Val Float → List Float
  | .num x => [x]
  | .list _ _ vs => valsFloats vs
  | _ => []
def valsFloats : Vals Float → List Float
  | .nil => []
  | .cons v rest => valFloats v ++ valsFloats rest
end

mutual
/-- sub-expressions (the tree itself included) -/
def subs : Expr → List Expr
  | .atom a => [.atom a]
  | .list its => .list its :: subsItems its
  | .bin o t l r => .bin o t l r :: (subs l ++ subs r)
  | .pre p t x => .pre p t x :: subs x
def subsItems : Items → List Expr
  | .nil => []
  | .cons e rest => subs e ++ subsItems rest
end

def missing (tb : Tables) (G : Cfg Float) (e : Expr) : Option String :=
  let ss := subs e
  -- floats that are printed: operands of the text operators and of comparisons that are not
  -- between two numbers
  let floats := ss.flatMap fun s => match s with
    | .bin o _ l r =>
      (match Impl.eval G l, Impl.eval G r with
       | .val a, .val b =>
         let textual := match o with
           | .like | .hasprefix | .hassuffix => true
           | .geq | .gt | .leq | .lt => (match a, b with | .num _, .num _ => false | _, _ => true)
           | _ => false
         if textual then valFloats a ++ valFloats b else []
       | _, _ => [])
    | _ => []
  match floats.find? (fun x => (tb.ftext.find? (·.1 = fbits x)).isNone) with
  | some x => some ("MISSING-FLOAT:" ++ hex16 (fbits x))
  | none =>
    let pairs := ss.filterMap fun s => match s with
      | .bin .like _ l r =>
        (match Impl.eval G l, Impl.eval G r with
         | .val a, .val b => some (a.text G.C, b.text G.C)
         | _, _ => none)
      | _ => none
    match pairs.find? (fun p => (tb.regex.find? (fun e => e.1 = p.1 ∧ e.2.1 = p.2)).isNone) with
    | some p => some ("MISSING-REGEX:" ++ hexEnc p.1 ++ ":" ++ hexEnc p.2)
    | none => none

/-! ### one case -/

def parseFText (s : String) : Option (List (Nat × Str)) :=
  if s = "-" then some [] else
  (s.splitOn ",").mapM fun e => match e.splitOn ":" with
    | [b, t] => do some ((← hexNat b), (← hexDecode t))
    | _ => none

def parseRegex (s : String) : Option (List (Str × Str × Option Bool)) :=
  if s = "-" then some [] else
  (s.splitOn ",").mapM fun e => match e.splitOn ":" with
    | [a, b, r] => do
      let a ← hexDecode a
      let b ← hexDecode b
      let r ← (match r with | "T" => some (some true) | "F" => some (some false) | "X" => some none | _ => none)
      some (a, b, r)
    | _ => none

def canonFText (l : List (Nat × Str)) : List (Nat × Str) :=
  l.map fun (b, t) => (fbits (Float.ofBits b.toUInt64), t)

/-! ### multi-evaluation cases: one tree, several environments -/

/-- canonical value: `n t f N<16 hex> Nnan S<hex> L(v,…) E()`; `base` makes the addresses of the lists of one environment distinct (every list value of an
    environment is its own slice in the harness; the same variable read twice is the same slice) -/
partial def parseVal (base : Nat) : List Char → Option (Val Float × List Char)
  | 'N' :: 'n' :: 'a' :: 'n' :: rest => some (.num (0.0 / 0.0), rest)
  | 'N' :: rest =>
    (hexNat (String.ofList (rest.take 16))).map fun b => (.num (Float.ofBits b.toUInt64), rest.drop 16)
  | 'S' :: rest =>
    let h := rest.takeWhile fun c => c != ',' && c != ')' && c != ';'
    (hexDecode (String.ofList h)).map fun bs => (.str bs, rest.drop h.length)
  | 'E' :: '(' :: ')' :: rest => some (.list (base + rest.length + 1) false .nil, rest)   -- empty, not nil
  | 'L' :: '(' :: rest =>
    let rec go (cs : List Char) (acc : List (Val Float)) : Option (List (Val Float) × List Char) :=
      match cs with
      | ')' :: r => some (acc.reverse, r)
      | ',' :: r => go r acc
      | cs => match parseVal base cs with
        | some (v, r) => go r (v :: acc)
        | none => none
    (go rest []).map fun (vs, r) =>
      if vs.isEmpty then (.list 0 true .nil, r)   -- `L()` is the nil slice
      else (.list (base + rest.length + 1) false (vs.foldr Vals.cons .nil), r)
  | 'n' :: rest => some (.null, rest)
  | 't' :: rest => some (.bool true, rest)
  | 'f' :: rest => some (.bool false, rest)
  | _ => none

def parseEnv (s : String) : Option (List (Str × Val Float)) :=
  if s = "-" then some [] else
  ((s.splitOn ";").zipIdx).mapM fun (b, i) =>
    match b.splitOn "=" with
    | [n, v] => (parseVal ((i + 1) * 1000000) v.toList).map fun (x, _) => (strBytes n, x)
    | _ => none

def envCfg (tb : Tables) (env : List (Str × Val Float)) : Cfg Float :=
  { cfg tb with var := fun n => match env.find? (·.1 = n) with
                              | some (_, v) => v
                              | none => .null }

/-! ### tokens: the Lean lexer model (`Ecal.Lex`, tied to lexer.go by C18/C07) on the source —
    the model does not see the output of the real lexer -/

def lowerStr (s : Str) : Str := s.map fun c => if 65 ≤ c ∧ c ≤ 90 then c + 32 else c

/-- the generator's INTENDED token texts against the lexed tokens: same number of tokens, same
    text up to letter case; string literals are only required to be string tokens -/
def intendedOk (intended : List Str) (ts : List LTok) : Bool :=
  let body := ts.filter fun t => t.tk != .eof
  body.length = intended.length &&
  (body.zip intended).all fun (t, w) =>
    match t.tk with
    | .atom (.str _) => w.head? = some 34 || w.head? = some 39 || w.head? = some 114
    | .atom (.num v _) => lowerStr v = lowerStr w
    | .atom (.ident v) => v = w
    | .atom (.tru v) | .atom (.fls v) | .atom (.null v) | .not v | .op _ v => v = w
    | .lp => w = [40] | .rp => w = [41] | .lb => w = [91] | .rb => w = [93] | .comma => w = [44]
    | _ => false

/-! ### one case -/

def field (fs : List (String × String)) (k : String) : Option String := (fs.find? (·.1 = k)).map (·.2)

def splitField (s : String) : String × String :=
  match s.splitOn "=" with
  | [] => ("", "")
  | [a] => (a, "")
  | a :: rest => (a, "=".intercalate rest)

def parseNum (s : String) : Option (List (Str × Nat)) :=
  if s = "-" then some [] else
  (s.splitOn ",").mapM fun e => match e.splitOn ":" with
    | [t, b] => do some ((← hexDecode t), (← hexNat b))
    | _ => none

/-- one statement under one environment: (as the code does, as the reference says) -/
structure StmtOut where
  impl : String          -- as the code does (Impl.eval)
  spec : String          -- as the reference says (Spec.eval)
  alts : List String     -- the admissible errors (Spec.errSet), when the outcome is an error
  modOut : Bool          -- some `%` has an operand outside the int64 range

def showErr (x : ErrKind × Str × Option Nat) : String :=
  match x with
  | (k, s, p) => showOut (.err k s p : Out Float)

def evalStmt (tb : Tables) (G : Cfg Float) (e : Expr) : StmtOut :=
  match missing tb G e with
  | some m => ⟨m, m, [], false⟩
  | none =>
    let a := showOut (Impl.eval G e)
    ⟨a, showOut (Spec.eval G e), ((Spec.errSet G e).map showErr).eraseDups.filter (· != a), !Spec.modInRange G e⟩

def isErrOut (s : String) : Bool := s.startsWith "E " || s.startsWith "MISSING"

/-- a program under one environment: statements in order, the first error ends it, otherwise the
    value of the last one; `r := e` alone: the value bound -/
def evalProgram (tb : Tables) (G : Cfg Float) (es : List Expr) : StmtOut :=
  match es with
  | [.bin .assign _ (.atom (.ident name)) r] =>
    let o := evalStmt tb G r
    let wrap (x : String) := if x.startsWith "V " then "A " ++ hexEnc name ++ " " ++ (x.drop 2).toString else x
    { o with impl := wrap o.impl, spec := wrap o.spec }
  | _ =>
    let outs := es.map (evalStmt tb G)
    let pick (sel : StmtOut → String) : String :=
      match (outs.map sel).find? isErrOut with
      | some e => e
      | none => ((outs.map sel).getLast?).getD "V n"
    let alts := match outs.find? (fun o => isErrOut o.impl) with
      | some o => o.alts
      | none => []
    ⟨pick (·.impl), pick (·.spec), alts, outs.any (·.modOut)⟩

def showProgram : List Expr → String
  | [e] => showTree e
  | es => "(statements" ++ String.join (es.map fun e => "," ++ showTree e) ++ ")"

/-- tree and outcomes of a token list (with the attributes) -/
def resultOfTokens (tb : Tables) (envs : List (Option (List (Str × Val Float)))) (ts : List LTok) : String :=
  if ts.any (fun t => t.tk == .other errorName) then "PARSEERR -"
  else if ts.any (fun t => match t.tk with | .other _ => true | _ => false) then "UNSUPPORTED other-token"
  else
    match Impl.parseProgram Ecal.Gen.C03.table (ts.length + 1) ts with
    | .error .fuel => "FUEL"
    | .error .unsupported => "UNSUPPORTED parse"
    | .error _ => "PARSEERR -"
    | .ok es =>
      let tree := showProgram es
      let nested := match es with
        | [.bin .assign _ (.atom (.ident _)) r] => hasAssign r
        | _ => es.any hasAssign
      if nested then tree ++ " NESTED-ASSIGN"
      else
        let outs := envs.map fun env =>
          let G := match env with
            | some e => envCfg tb e
            | none => cfg tb
          evalProgram tb G es
        let a := "|".intercalate (outs.map (·.impl))
        let b := "|".intercalate (outs.map (·.spec))
        let nt := match es with | [.atom _] => "" | _ => "\tnt=1"
        -- admissible alternatives per evaluation: `alt=<index>:<outcome>~<outcome>;…`
        let altParts := (outs.zipIdx.filter fun (o, _) => !o.alts.isEmpty).map fun (o, i) =>
          toString i ++ ":" ++ "~".intercalate o.alts
        let alt := if altParts.isEmpty then "" else "\talt=" ++ ";".intercalate altParts
        if a = b then tree ++ " " ++ a ++ nt ++ alt
        else
          -- the code deviates from the reference: which known finding?
          let coreOf (x : String) : String :=
            "|".intercalate ((x.splitOn "|").map fun o =>
              if o.startsWith "E " then " ".intercalate ((o.splitOn " ").take 3) else o)
          let kf :=
            if coreOf a = coreOf b then "error-node-left-operand"
            else if outs.any (·.modOut) then "mod-out-of-int64-range"
            else "MODEL-DRIFT"   -- excluded by eval_eq_quirk_spec; never a known finding
          tree ++ " " ++ a ++ nt ++ alt ++ "\tkf=" ++ kf ++ "\tspec=" ++ tree ++ " " ++ b

def runCase (payload : String) : String :=
  let fs := (payload.splitOn " ").map splitField
  match field fs "src", field fs "conv", field fs "num", field fs "ft", field fs "re" with
  | some src, some conv, some num, some ft, some re =>
    match hexDecode src, (conv.splitOn ",").mapM String.toInt?, parseNum num, parseFText ft, parseRegex re,
          ((field fs "env").getD "*").splitOn "|" |>.mapM (fun e => if e = "*" then some none else (parseEnv e).map some),
          (match field fs "int" with
           | none => some none
           | some "-" => some (some [])
           | some s => ((s.splitOn ",").mapM hexDecode).map some) with
    | some src, some [c1, c2, c3], some num, some ft, some rx, some envs, some intended =>
      let tb : Tables := { convNaN := c1, convPos := c2, convNeg := c3, ftext := canonFText ft, regex := rx }
      match lexTokens num src with
      | none => "MISSING-NUMBER-BITS"
      | some ts =>
        let lexdiff := match intended with
          | some w => !intendedOk w ts
          | none => false
        if lexdiff then "LEXDIFF the lexer model's tokens are not the generator's intended tokens"
        else
          let r := resultOfTokens tb envs ts
          -- the documented reading of number literals (exponents the lexer splits)
          match lexTokensDocumented num src with
          | some ts' =>
            if ts' == ts then r
            else
              let main (x : String) := (x.splitOn "\t").headD ""
              let nt := if (r.splitOn "\t").contains "nt=1" then "\tnt=1" else ""
              main r ++ nt ++ "\tkf=number-exponent-split\tspec=" ++ main (resultOfTokens tb envs ts')
          | none => r
    | _, _, _, _, _, _, _ => "bad-payload"
  | _, _, _, _, _ => "bad-payload"

/-! ### search: the documented grammar's prints of all operator pairs (independent of the table) -/

def binText : BinOp → String
  | .geq => ">=" | .leq => "<=" | .neq => "!=" | .eq => "==" | .gt => ">" | .lt => "<"
  | .plus => "+" | .minus => "-" | .times => "*" | .div => "/" | .divint => "//" | .modint => "%"
  | .and => "and" | .or => "or" | .like => "like" | .isin => "in" | .hasprefix => "hasprefix"
  | .hassuffix => "hassuffix" | .notin => "notin" | .assign => ":="

def preText : PreOp → String
  | .neg => "-" | .pos => "+" | .not => "not"

def tkText : TK → String
  | .atom (.num t _) => String.fromUTF8! (ByteArray.mk (t.map (·.toUInt8)).toArray)
  | .atom _ => "x"
  | .lp => "(" | .rp => ")" | .lb => "[" | .rb => "]" | .comma => "," | .eof => ""
  | .not _ => "not"
  | .op o _ => binText o
  | .other _ => "?"

def numAtom (n : Nat) : Expr := .atom (.num (strBytes (toString n)) 0)

def bin' (o : BinOp) (l r : Expr) : Expr := .bin o (strBytes (binText o)) l r
def pre' (p : PreOp) (x : Expr) : Expr := .pre p (strBytes (preText p)) x

/-- trees over all operator pairs and prefix/binary pairs -/
def searchTrees : List Expr :=
  (BinOp.all.flatMap fun o1 => BinOp.all.flatMap fun o2 =>
    [bin' o2 (bin' o1 (numAtom 1) (numAtom 2)) (numAtom 3), bin' o1 (numAtom 1) (bin' o2 (numAtom 2) (numAtom 3))]) ++
  (PreOp.all.flatMap fun p => BinOp.all.flatMap fun o =>
    [pre' p (bin' o (numAtom 1) (numAtom 2)), bin' o (pre' p (numAtom 1)) (numAtom 2),
     bin' o (numAtom 1) (pre' p (numAtom 2))]) ++
  (PreOp.all.flatMap fun p => PreOp.all.map fun q => pre' p (pre' q (numAtom 1)))

/-- `<source-hex> <tree>` : the minimal print of the tree per the documented grammar and the
    tree the real parser has to build from it -/
def specPrints : List String :=
  searchTrees.map fun e =>
    let src := " ".intercalate ((Spec.pr e .top .none).map tkText)
    hexEnc (strBytes src) ++ " " ++ showTree e

/-- all operator triples in their five shapes (amplified search) -/
def searchTriples : List Expr :=
  BinOp.all.flatMap fun o1 => BinOp.all.flatMap fun o2 => BinOp.all.flatMap fun o3 =>
    let a := numAtom 1; let b := numAtom 2; let c := numAtom 3; let d := numAtom 4
    [bin' o3 (bin' o2 (bin' o1 a b) c) d, bin' o3 (bin' o1 a (bin' o2 b c)) d,
     bin' o2 (bin' o1 a b) (bin' o3 c d), bin' o1 a (bin' o3 (bin' o2 b c) d),
     bin' o1 a (bin' o2 b (bin' o3 c d))]

def printLine (e : Expr) : String :=
  let src := " ".intercalate ((Spec.pr e .top .none).map tkText)
  hexEnc (strBytes src) ++ " " ++ showTree e

def run (args : List String) : IO Unit :=
  match args with
  | ["specprints"] => do
    for s in specPrints do
      IO.println s
  | ["specprints", "big"] => do
    for s in specPrints do
      IO.println s
    for e in searchTriples do
      IO.println (printLine e)
  | _ => lineLoop runCase
end Ecal.Drv.C03
