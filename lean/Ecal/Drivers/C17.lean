import Ecal.Drivers.Util
import Ecal.Model.Path
/-!
Model driver of C17. Payloads (space separated, strings hex encoded, `-` = empty):

* `P <a> <b>` — the path primitives: result `<Clean a> <Join a b> <Rel a b | ERR>`.
* `R|I <cwd> <files> <root> <rootpos> <pre|~> <depth> <alphabet>` — `Resolve` (directly / through
  an `import` statement): the paths are `pre` followed by every sequence of exactly `depth`
  alphabet elements, joined by `/` (`~` = no `pre`). `files` is the comma separated list of
  the existing files; `cwd`, `files`, `rootpos` are relative to the base directory `B` of the
  tree. A string starting with `@` stands for `B` followed by the rest; the model uses the
  absolute clean one-element path `/^B` for `B` (the harness substitutes the real directory).
  Result: per path `E` (error), `I<n>` (content of file n, inside the root) or `O<n>`
  (content of file n, OUTSIDE the root), comma separated. `rootpos` is not used by the model:
  it computes the root's position by walking the root string.
* `J <cwd> <files+modules> <root> <rootpos> <srcname> <path>` — the import statement in a program
  parsed under `srcname`; file entries `pos>inner` are modules importing `inner`. Model:
  `importEval` (the source name is not used). Result `E` / `I<n>` / `O<n>`.
* `T <cwd> <files> <dir> <modelroot> <rootpos> <pre|~> <depth> <alphabet>` — the command line tool
  configured with `dir`; the model resolves with `toolLocatorRoot modelroot` (`modelroot = dir`
  except for a symlinked root, where it is the link's target).
-/
namespace Ecal.Drv.C17
open Ecal.Drv Ecal.Path

def modelB : Str := [47, 94, 66]

def subst (s : Str) : Str :=
  match s with
  | 64 :: rest => modelB ++ rest
  | _ => s

def optStr : Option Str → String
  | some s => hexEnc s
  | none => "ERR"

def splitComma (s : Str) : List Str :=
  if s = [] then [] else
  let rec go : Str → Str → List Str → List Str
    | [], cur, acc => (cur.reverse :: acc).reverse
    | c :: cs, cur, acc => if c = 44 then go cs [] (cur.reverse :: acc) else go cs (c :: cur) acc
  go s [] []

/-- position of a `B`-relative string -/
def relPos (s : Str) : Pos := [94, 66] :: (elems s).filter (· ≠ [])

def isPrefixOf (a b : Pos) : Bool := a.length ≤ b.length && b.take a.length == a

def allExt (alpha : List Str) : Nat → List (List Str)
  | 0 => [[]]
  | d + 1 => (allExt alpha d).flatMap fun e => alpha.map fun a => e ++ [a]

def findIdx (files : List Pos) (p : Pos) : Option Nat :=
  let rec go : List Pos → Nat → Option Nat
    | [], _ => none
    | f :: fs, i => if f = p then some i else go fs (i + 1)
  go files 0

def outcome (cwd : Pos) (files : List Pos) (root p : Str) : String :=
  match resolve root p with
  | .opened q =>
    let pos := walkStr cwd q
    match findIdx files pos with
    | none => "E"
    | some i =>
      let rootPos := walkStr cwd root
      (if isPrefixOf rootPos pos then "I" else "O") ++ toString i
  | _ => "E"

/-- a file entry `pos` or `pos>inner` -/
def parseEntry (e : Str) : Pos × Option Str :=
  let rec go : Str → Str → Pos × Option Str
    | [], acc => (relPos acc.reverse, none)
    | c :: cs, acc => if c = 62 then (relPos acc.reverse, some cs) else go cs (c :: acc)
  go e []

def mkFS (cwd : Pos) (entries : List (Pos × Option Str)) : FS := fun q =>
  let pos := walkStr cwd q
  let rec go : List (Pos × Option Str) → Nat → Option FileContent
    | [], _ => none
    | (f, m) :: fs, i =>
      if f = pos then (match m with | none => some (.sentinel i) | some inner => some (.imports inner))
      else go fs (i + 1)
  go entries 0

def classify (cwd : Pos) (entries : List (Pos × Option Str)) (root : Str) : Option Nat → String
  | none => "E"
  | some i =>
    match entries[i]? with
    | none => "E"
    | some (pos, _) => (if isPrefixOf (walkStr cwd root) pos then "I" else "O") ++ toString i

/-- the paths of an `R` / `I` / `T` line resolved with the locator root `root` -/
def runResolve (cwd files root pre depth alpha : String) : String :=
    match hexDecode cwd, hexDecode files, hexDecode root, depth.toNat?, hexDecode alpha with
    | some cwd, some files, some root, some depth, some alpha =>
      let pre? : Option (Option Str) := if pre = "~" then some none else (hexDecode pre).map some
      match pre? with
      | none => "bad-payload"
      | some pre =>
        let cwdPos := relPos cwd
        let filePos := (splitComma files).map relPos
        let root := subst root
        let alpha := splitComma alpha
        let paths := (allExt alpha depth).map fun ext =>
          match pre with
          | some p => subst p ++ ext.flatMap (fun e => 47 :: e)
          | none => joinSep ext
        let rs := paths.map (outcome cwdPos filePos root)
        ",".intercalate rs ++ (if rs.any (· ≠ "E") then "\tnt=1" else "")
    | _, _, _, _, _ => "bad-payload"

def runCase (payload : String) : String :=
  match payload.splitOn " " with
  | ["P", a, b] =>
    match hexDecode a, hexDecode b with
    | some a, some b =>
      hexEnc (cleanStr a) ++ " " ++ hexEnc (joinStr a b) ++ " " ++ optStr (relStr a b) ++ "\tnt=1"
    | _, _ => "bad-payload"
  | ["J", cwd, files, root, _rootpos, src, path] =>
    match hexDecode cwd, hexDecode files, hexDecode root, hexDecode src, hexDecode path with
    | some cwd, some files, some root, some src, some path =>
      let cwdPos := relPos cwd
      let entries := (splitComma files).map parseEntry
      let root := subst root
      let r := importEval (mkFS cwdPos entries) root 8 (subst src) path
      let res := classify cwdPos entries root r.1
      res ++ (if res ≠ "E" then "\tnt=1" else "")
    | _, _, _, _, _ => "bad-payload"
  | ["T", cwd, files, _dir, modelroot, _rootpos, pre, depth, alpha] =>
    match hexDecode modelroot with
    | some r => runResolve cwd files (hexEnc (toolLocatorRoot r)) pre depth alpha
    | none => "bad-payload"
  | [kind, cwd, files, root, _rootpos, pre, depth, alpha] =>
    if kind ≠ "R" ∧ kind ≠ "I" then "bad-payload" else runResolve cwd files root pre depth alpha
  | _ => "bad-payload"

def run (_args : List String) : IO Unit := lineLoop runCase
end Ecal.Drv.C17
