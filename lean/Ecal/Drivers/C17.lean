import Ecal.Drivers.Util
import Ecal.Model.Path
import Ecal.Gen.C17
/-!
Model driver of C17. Payloads (space separated, strings hex encoded, `-` = empty):

* `P <a> <b>` — the path primitives: result `<Clean a> <Join a b> <Rel a b | ERR>`, computed by the
  BYTE-level `cleanBytes` / `joinBytes` / `relBytes`; R / I / N / T / U / V lines run `resolveBytes`
  (proved equal to the element-level functions of the property theorems, Lemmas/PathBytes.lean).
* `R|I|N <cwd> <files> <root> <rootpos> <pre|~> <depth> <alphabet>` — `Resolve` (directly / through
  an `import` statement / through an import with the provider's default locator): the paths are
  `pre` followed by every sequence of exactly `depth` alphabet elements, joined by `/` (`~` = no
  `pre`). `files` is the comma separated list of the existing files; `cwd`, `files`, `rootpos`
  are relative to the base directory `B` of the tree. A string starting with `@` stands for `B`
  followed by the rest, `@:` for the name of `B`; the model uses the absolute clean path
  `/^2/^1/^B` for `B` (the harness substitutes the real directory, which has at least two ancestors).
  Result per path `<opened>=<result>`, comma separated: `<opened>` = the strings that reached the
  open (hex, `|` separated, a leading `B` / parent / grandparent of `B` written `@B` / `@1` / `@2`),
  `-` if none; `<result>` = `rej` (R lines: an error and no open — the locator's own rejection or the error of `Rel`, which
  the tie does not tell apart), `E` (error), `I<n>` (content of file n, inside the root), `O<n>` (content of file n,
  OUTSIDE the root). `rootpos` is not used by the model: it walks the root string.
  A lower case kind letter: the tree under test has no `c17.open` instrumentation point; `<opened>`
  is then `?` and every error `E`.
* `C <cwd> <files> <root> <rootpos> <inside path> <outside path> <rounds>` — two goroutines call `Resolve` on ONE
  locator `rounds` times each; result `?=<results seen for the outside path>,?=<… inside path>` (a `+` separated set).
* `K <cwd> <files> <root> <q>` — judge a string the real code opened (one-sided comparison): `in|out,<file index|->`.
* `J <cwd> <files+modules> <root> <rootpos> <srcname> <path>` — the import statement in a program
  parsed under `srcname`; file entries `pos>inner` are modules importing `inner`. Model:
  `importEval` instantiated with the facts regenerated from rt_general.go.
* `T|U|V <cwd> <files> <dir|~> <modelroot> <rootpos> <pre|~> <depth> <alphabet>` — the command line
  tool configured with `dir` programmatically (T) / the whole `CLIInterpreter.Interpret(false)` over
  `ecal run [-dir dir] <entry>` (U) or with the import typed at the console (V) (`~`: no `-dir`); the model
  resolves with `toolRoot … modelroot` (`modelroot = dir` except for a symlinked root, where it is
  the link's target and `<opened>` is `?`, and without `-dir`, where it is the working directory).
-/
namespace Ecal.Drv.C17
open Ecal.Drv Ecal.Path

def modelB : Str := [47, 94, 50, 47, 94, 49, 47, 94, 66]

def subst (s : Str) : Str :=
  match s with
  | 64 :: 58 :: rest => [94, 66] ++ rest
  | 64 :: rest => modelB ++ rest
  | _ => s

def startsWith (pat s : Str) : Bool := s.take pat.length == pat

/-- replace every occurrence of the non-empty `pat` (fuel = length of the string: every step consumes a byte) -/
def replaceAllAux (pat rep : Str) : Nat → Str → Str
  | 0, s => s
  | _, [] => []
  | fuel + 1, c :: cs =>
    if startsWith pat (c :: cs) then rep ++ replaceAllAux pat rep fuel ((c :: cs).drop pat.length)
    else c :: replaceAllAux pat rep fuel cs

def replaceAll (pat rep s : Str) : Str := if pat.isEmpty then s else replaceAllAux pat rep s.length s

/-- the opened string spelled independently of `B`: `^2/^1/^B` → `@B`, `^2/^1` → `@1`, `^2` → `@2`, `^B` → `@:` -/
def canon (q : Str) : Str :=
  if !q.contains 94 then q else
  let q := replaceAll (modelB.drop 1) [64, 66] q
  let q := replaceAll ((modelB.take 6).drop 1) [64, 49] q
  let q := replaceAll ((modelB.take 3).drop 1) [64, 50] q
  replaceAll [94, 66] [64, 58] q

def optStr : Option Str → String
  | some s => hexEnc s
  | none => "ERR"

def splitComma (s : Str) : List Str :=
  if s = [] then [] else
  let rec go : Str → Str → List Str → List Str
    | [], cur, acc => (cur.reverse :: acc).reverse
    | c :: cs, cur, acc => if c = 44 then go cs [] (cur.reverse :: acc) else go cs (c :: cur) acc
  go s [] []

/-- position of a `B`-relative string -/
def relPos (s : Str) : Pos := [94, 50] :: [94, 49] :: [94, 66] :: (elems s).filter (· ≠ [])

def isPrefixOf (a b : Pos) : Bool := a.length ≤ b.length && b.take a.length == a

def allExt (alpha : List Str) : Nat → List (List Str)
  | 0 => [[]]
  | d + 1 => (allExt alpha d).flatMap fun e => alpha.map fun a => e ++ [a]

def findIdx (files : List Pos) (p : Pos) : Option Nat :=
  let rec go : List Pos → Nat → Option Nat
    | [], _ => none
    | f :: fs, i => if f = p then some i else go fs (i + 1)
  go files 0

/-- `(opened, result)`; `detail`: separate the locator's rejection from the error of `Rel` -/
def outcome (cwd : Pos) (files : List Pos) (detail : Bool) (root p : Str) : List Str × String :=
  match resolveBytes root p with
  | .opened q =>
    let pos := walkStr cwd q
    match findIdx files pos with
    | none => ([q], "E")
    | some i =>
      let rootPos := walkStr cwd root
      ([q], (if isPrefixOf rootPos pos then "I" else "O") ++ toString i)
  | .rejected => ([], if detail then "rej" else "E")
  | .relError => ([], if detail then "rej" else "E")   -- the tie does not tell the two errors apart

def fnv (s : Str) : UInt32 := s.foldl (fun h c => (h ^^^ c.toUInt32) * 16777619) 2166136261

def hex6 (h : UInt32) : String :=
  let n := (h &&& 0xffffff).toNat
  String.ofList ((List.range 6).reverse.map fun i => hexDigit ((n / 16 ^ i) % 16))

/-- render one observation; `ev = false`: the opened strings are not observed; `short`: lines that
    carry many paths print a 24 bit FNV-1a digest of the opened string(s) instead -/
def obs (ev short : Bool) (o : List Str × String) : String :=
  if !ev then "?=" ++ o.2
  else if o.1.isEmpty then "-=" ++ o.2
  else if short then
    hex6 (fnv (([124] : Str).intercalate (o.1.map canon))) ++ "=" ++ o.2
  else "|".intercalate (o.1.map fun q => hexEnc (canon q)) ++ "=" ++ o.2

/-- a file entry `pos` or `pos>inner` -/
def parseEntry (e : Str) : Pos × Option Str :=
  let rec go : Str → Str → Pos × Option Str
    | [], acc => (relPos acc.reverse, none)
    | c :: cs, acc => if c = 62 then (relPos acc.reverse, some cs) else go cs (c :: acc)
  go e []

def mkFS (cwd : Pos) (entries : List (Pos × Option Str)) : FS := fun q =>
  let pos := walkStr cwd q
  let rec go : List (Pos × Option Str) → Nat → Option FileContent
    | [], _ => none
    | (f, m) :: fs, i =>
      if f = pos then (match m with | none => some (.sentinel i) | some inner => some (.imports inner))
      else go fs (i + 1)
  go entries 0

def classify (cwd : Pos) (entries : List (Pos × Option Str)) (root : Str) : Option Nat → String
  | none => "E"
  | some i =>
    match entries[i]? with
    | none => "E"
    | some (pos, _) => (if isPrefixOf (walkStr cwd root) pos then "I" else "O") ++ toString i

/-- the paths of an `R` / `I` / `N` / `T` / `U` line resolved with the locator root `root` -/
def runResolve (ev detail : Bool) (cwd files root pre depth alpha : String) : String :=
  match hexDecode cwd, hexDecode files, hexDecode root, depth.toNat?, hexDecode alpha with
  | some cwd, some files, some root, some depth, some alpha =>
    let pre? : Option (Option Str) := if pre = "~" then some none else (hexDecode pre).map some
    match pre? with
    | none => "bad-payload"
    | some pre =>
      let cwdPos := relPos cwd
      let filePos := (splitComma files).map relPos
      let root := subst root
      let alpha := splitComma alpha
      let paths := (allExt alpha depth).map fun ext =>
        match pre with
        | some p => subst p ++ ext.flatMap (fun e => 47 :: e)
        | none => joinSep ext
      let rs := paths.map (outcome cwdPos filePos (detail && ev) root)
      ",".intercalate (rs.map (obs ev (depth > 0))) ++
        (if rs.any (fun o => o.2 ≠ "E" ∧ o.2 ≠ "rej" ∧ o.2 ≠ "relerr") then "\tnt=1" else "")
  | _, _, _, _, _ => "bad-payload"

/-- the adversary of the import model is never consulted when the regenerated facts hold; if they do
    not (the property theorem is then broken anyway) the driver keeps the configured behaviour -/
def noAdv : Str → Str → Str → Str × Str := fun root _ p => (root, p)

/-- a string the real code opened, in the `B`-independent spelling, back in the model's spelling -/
def uncanon (q : Str) : Str :=
  if !q.contains 64 then q else
  let q := replaceAll [64, 66] (modelB.drop 1) q
  let q := replaceAll [64, 49] ((modelB.take 6).drop 1) q
  let q := replaceAll [64, 50] ((modelB.take 3).drop 1) q
  replaceAll [64, 58] [94, 66] q

/-- R / I / N lines (8 fields) -/
def runResolve8 (kind cwd files root pre depth alpha : String) : String :=
  if kind = "R" ∨ kind = "r" then runResolve (kind = "R") true cwd files root pre depth alpha
  else if kind = "I" ∨ kind = "i" ∨ kind = "N" ∨ kind = "n" then
    runResolve (kind = "I" ∨ kind = "N") false cwd files root pre depth alpha
  else "bad-payload"

def runCase (payload : String) : String :=
  match payload.splitOn " " with
  | ["K", cwd, files, root, q] =>
    -- judge a string the real code opened: is it inside the root (Spec `inside`), and which file does it name?
    match hexDecode cwd, hexDecode files, hexDecode root, hexDecode q with
    | some cwd, some files, some root, some q =>
      let cwdPos := relPos cwd
      let entries := (splitComma files).map parseEntry
      let q := uncanon q
      (if insideB (subst root) q then "in" else "out") ++ "," ++
        (match findIdx (entries.map (·.1)) (walkStr cwdPos q) with | some i => toString i | none => "-")
    | _, _, _, _ => "bad-payload"
  | [kind, cwd, files, root, _rootpos, pin, pout, _rounds] =>
    -- two goroutines on one locator: the outside path, then the inside path; the sets of results
    if kind ≠ "C" ∧ kind ≠ "c" then runResolve8 kind cwd files root pin pout _rounds else
    match hexDecode cwd, hexDecode files, hexDecode root, hexDecode pin, hexDecode pout with
    | some cwd, some files, some root, some pin, some pout =>
      let cwdPos := relPos cwd
      let filePos := (splitComma files).map relPos
      let root := subst root
      let o := outcome cwdPos filePos false root (subst pout)
      let i := outcome cwdPos filePos false root (subst pin)
      "?=" ++ o.2 ++ ",?=" ++ i.2 ++ (if i.2 ≠ "E" then "\tnt=1" else "")
    | _, _, _, _, _ => "bad-payload"
  | ["P", a, b] =>
    match hexDecode a, hexDecode b with
    | some a, some b =>
      hexEnc (cleanBytes a) ++ " " ++ hexEnc (joinBytes a b) ++ " " ++ optStr (relBytes a b) ++ "\tnt=1"
    | _, _ => "bad-payload"
  | [kind, cwd, files, root, _rootpos, src, path] =>
    if kind ≠ "J" ∧ kind ≠ "j" then "bad-payload" else
    match hexDecode cwd, hexDecode files, hexDecode root, hexDecode src, hexDecode path with
    | some cwd, some files, some root, some src, some path =>
      let cwdPos := relPos cwd
      let entries := (splitComma files).map parseEntry
      let root := subst root
      let r := importEval Ecal.Gen.C17.importFacts noAdv (mkFS cwdPos entries) root 8 (subst src) path
      let res := classify cwdPos entries root r.1
      obs (kind = "J") false (r.2, res) ++ (if res ≠ "E" then "\tnt=1" else "")
    | _, _, _, _, _ => "bad-payload"
  | [kind, cwd, files, dir, modelroot, _rootpos, pre, depth, alpha] =>
    if kind ≠ "T" ∧ kind ≠ "t" ∧ kind ≠ "U" ∧ kind ≠ "u" ∧ kind ≠ "V" ∧ kind ≠ "v" then "bad-payload" else
    match hexDecode modelroot with
    | some r =>
      let ev := (kind = "T" ∨ kind = "U" ∨ kind = "V") ∧ (dir = modelroot ∨ dir = "~")
      runResolve ev false cwd files (hexEnc (toolRoot Ecal.Gen.C17.toolRootIsDir (fun d => d) r)) pre depth alpha
    | none => "bad-payload"
  | _ => "bad-payload"

def run (_args : List String) : IO Unit := lineLoop runCase
end Ecal.Drv.C17
