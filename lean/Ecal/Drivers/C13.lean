import Ecal.Drivers.Util
import Ecal.Model.Conc
import Ecal.Drivers.C07
/-!
Driver of C13. Payload (space separated `key=value`):
  `g=<goroutines> n=<programs> r=<rounds> prov=<0|1> mode=<…> seed=<n>`
The model side instantiates `Ecal.Conc.parserSys true` (the parser as it is: a
per-parse block-start counter, the grammar table never written) with `g` threads
whose operation lists and whose interleaving are derived from the seed, runs the
interleaving, and counts the threads whose result differs from the result of
the same thread running alone. It also lets the threads draw instance ids from
the atomically updated counter (`idSys true`) and counts duplicates.
Result: `<mismatches> <duplicate ids>` (theorems `parse_reentrant`, `instance_ids_distinct`: 0 0).
Mode `lean` (every second case): the payload carries programs with their token lists; the Lean parser
model (Model/Parser, the port C07 ties to parser.go) parses them and the result line is the hash of
its C07-format result per program — what every concurrent Go parse of that program must have produced.
-/
namespace Ecal.Drv.C13
open Ecal.Drv Ecal.Conc

def field (fs : List String) (k : String) : Nat :=
  match fs.find? (·.startsWith (k ++ "=")) with
  | some s => ((s.drop (k.length + 1)).toString.toNat?).getD 0
  | none => 0

def lcg (x : Nat) : Nat := (x * 6364136223846793005 + 1442695040888963407) % 18446744073709551616

/-- a well-bracketed operation list of a "program" -/
def progOf : Nat → Nat → Nat → List POp
  | 0, _, depth => List.replicate depth POp.guardEnd
  | fuel + 1, x, depth =>
    let x := lcg x
    match (x / 65536) % 5 with
    | 0 => POp.guardBegin :: progOf fuel x (depth + 1)
    | 1 => if depth > 0 then POp.guardEnd :: progOf fuel x (depth - 1) else POp.brace :: progOf fuel x depth
    | 2 => POp.brace :: progOf fuel x depth
    | 3 => POp.brace :: progOf fuel x depth
    | _ => POp.other :: progOf fuel x depth

def schedOf : Nat → Nat → Nat → List Nat
  | 0, _, _ => []
  | fuel + 1, x, g => let x := lcg x; ((x / 65536) % g) :: schedOf fuel x g

def textHash (t : String) : String :=
  let bs := t.toUTF8.toList
  let h := bs.foldl (fun h b => (h * 131 + b.toNat) % 1000000007) 7
  toString bs.length ++ ":" ++ toString h

/-- mode lean: the parser MODEL (`Ecal.Parse.parseToks`, the port of parser.go that C07 ties to the
    code) parses the tokens of every program; result per program in the C07 text format, hashed. -/
def leanOne (p : String) : String :=
  match p.splitOn ":" with
  | [_src, toks] =>
    let toks? := if toks = "-" then some [] else (toks.splitOn ",").mapM Ecal.Drv.C07.parseTok
    match toks? with
    | none => "bad-tokens"
    | some ts =>
      match Ecal.Parse.parseToks ts with
      | (some t, none) => textHash ("OK " ++ Ecal.Drv.C07.treeText t)
      | (none, some (.perr kind l c)) =>
        textHash ("ERR " ++ Ecal.Drv.C07.kindText kind ++ " " ++ toString l ++ " " ++ toString c)
      | (none, some .panic) => "PANIC-PREDICTED"
      | (none, some .fuel) => "OUT-OF-FUEL"
      | (some _, some _) => textHash "BOTH"
      | (none, none) => textHash "NEITHER"
  | _ => "bad-program"

def runLean (fs : List String) : String :=
  match fs.find? (·.startsWith "progs=") with
  | some p => " ".intercalate (((p.drop 6).toString.splitOn "|").map leanOne) ++ "\tnt=1"
  | none => "bad-payload"

def runCase (payload : String) : String :=
  let fs := payload.splitOn " "
  if fs.contains "mode=lean" then runLean fs else
  let g := field fs "g"
  let seed := field fs "seed"
  if g = 0 then "bad-payload" else
  let init : State String Brace PLoc :=
    ⟨fun _ => Brace.mapLit, fun t => { prog := progOf 12 (seed + 7919 * t) 0 }⟩
  -- every thread gets enough steps to finish: a random interleaving followed by a round-robin tail
  let sched := schedOf (g * 16) seed g ++ (List.range (g * 30)).map (· % g)
  let fin := run (parserSys true) init sched
  let mism := (List.range g).filter fun t =>
    decide ((fin.locals t).out ≠ (alone (parserSys true) t (sched.count t) init.shared (init.locals t)).2.out)
  -- instance ids: the same threads draw ids from the atomically updated counter
  let ifin := run (idSys true) ⟨fun _ => 0, fun t => { todo := 3 + (seed + t) % 5 }⟩ sched
  let allIds := (List.range g).flatMap fun t => (ifin.locals t).ids
  let dup := allIds.length - allIds.eraseDups.length
  toString mism.length ++ " " ++ toString dup ++ (if (g ≥ 2 ∨ fs.contains "mode=poison") ∧ field fs "n" ≥ 10 then "\tnt=1" else "")

def run (_args : List String) : IO Unit := lineLoop runCase
end Ecal.Drv.C13
