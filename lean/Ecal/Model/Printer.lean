import Ecal.Model.Parser
import Ecal.Gen.C08Print
import Ecal.Gen.C08
/-!
Model of parser/prettyprinter.go at the CURRENT commit of /repo (with the repairs 58be508 — bracket rule
`ppNeedsBrackets` —, 4f48871 — empty block comment —, e9f68ea — let / sink attributes are prefix operators — and 9f2e979 — `if true {…}` is not an else branch).  Text is a byte list.
`Out.panic` = a Go panic (missing template, nil token, bad slice …), `Out.nilNode` = the
"Nil pointer in AST" error.
-/
namespace Ecal.Print
open Ecal.Lex Ecal.Parse

abbrev Txt := List Nat

inductive PErr where | nilNode | panic deriving Repr, DecidableEq

def s (x : String) : Txt := str x

/-- decode a byte list into (rune, width) pairs like utf8.DecodeRune -/
def runes (t : Txt) : List (Nat × Nat) :=
  let arr := t.toArray
  let rec go (fuel i : Nat) : List (Nat × Nat) :=
    match fuel with
    | 0 => []
    | f+1 => if i ≥ arr.size then [] else let (r, w) := decodeRune arr i; (r, w) :: go f (i + w)
  go (t.length + 1) 0

def trimRightSpace (t : Txt) : Txt :=
  let rs := runes t
  let keep := (rs.reverse.dropWhile fun p => isSpace p.1).reverse
  t.take (keep.foldl (fun a p => a + p.2) 0)
def trimLeftSpace (t : Txt) : Txt :=
  let rs := runes t
  let dropN := (rs.takeWhile fun p => isSpace p.1).foldl (fun a p => a + p.2) 0
  t.drop dropN
def trimSpace (t : Txt) : Txt := trimRightSpace (trimLeftSpace t)

def splitOn (sep : Nat) (t : Txt) : List Txt :=
  let rec go : Txt → Txt → List Txt
    | [], acc => [acc.reverse]
    | c :: cs, acc => if c = sep then acc.reverse :: go cs [] else go cs (c :: acc)
  go t []
def joinWith (sep : Txt) : List Txt → Txt
  | [] => []
  | [x] => x
  | x :: xs => x ++ sep ++ joinWith sep xs

def replaceNl (t : Txt) (by_ : Txt) : Txt := t.flatMap fun c => if c = 10 then by_ else [c]
def containsNl (t : Txt) : Bool := t.contains 10
def lastNl (t : Txt) : Option Nat :=
  let idxs := (List.range t.length).filter fun i => t[i]! = 10
  idxs.getLast?

def hexDigit (x : Nat) : Nat := if x < 10 then 48 + x else 87 + x
def hex2 (n : Nat) : Txt := [hexDigit (n / 16 % 16), hexDigit (n % 16)]
def hex4 (n : Nat) : Txt := [hexDigit (n / 4096 % 16), hexDigit (n / 256 % 16), hexDigit (n / 16 % 16), hexDigit (n % 16)]
def hex8 (n : Nat) : Txt :=
  [hexDigit (n / 268435456 % 16), hexDigit (n / 16777216 % 16), hexDigit (n / 1048576 % 16), hexDigit (n / 65536 % 16)] ++ hex4 n

/-- binary search in ascending, disjoint ranges -/
def searchRanges (a : Array (Nat × Nat)) (r : Nat) : Nat → Nat → Nat → Bool
  | 0, _, _ => false
  | f+1, lo, hi =>
    if lo ≥ hi then false
    else
      let mid := (lo + hi) / 2
      let x := a.getD mid (0, 0)
      if r < x.1 then searchRanges a r f lo mid
      else if r > x.2 then searchRanges a r f (mid + 1) hi
      else true

/-- strconv.IsPrint: ASCII by its definition, every other rune by the table regenerated from the Go
    toolchain (`Ecal.Gen.C08Print.printRanges`) -/
def isPrint (r : Nat) : Bool :=
  if r < 0x80 then 0x20 ≤ r && r < 0x7F
  else searchRanges Ecal.Gen.C08Print.printRanges r 40 0 Ecal.Gen.C08Print.printRanges.size

/-- utf8.DecodeRune on the head of a non-empty byte list: (rune, width); invalid ⇒ (U+FFFD, 1) -/
def decodeHead (l : List Nat) : Nat × Nat :=
  decodeBytes l.length (l.getD 0 0) (l.getD 1 0) (l.getD 2 0) (l.getD 3 0)

/-- what strconv.Quote writes for the rune at the head of `l` (rune `r`, width `w`); `ip` = the
    printability predicate -/
def quotePiece (ip : Nat → Bool) (l : List Nat) (r w : Nat) : Txt :=
  if w = 1 && r = runeError then [92, 120] ++ hex2 (l.getD 0 0)                  -- \\xNN of an invalid byte
  else if r = 34 then [92, 34] else if r = 92 then [92, 92]
  else if ip r then l.take w
  else if r = 7 then [92, 97] else if r = 8 then [92, 98] else if r = 12 then [92, 102]
  else if r = 10 then [92, 110] else if r = 13 then [92, 114] else if r = 9 then [92, 116]
  else if r = 11 then [92, 118]
  else if r < 0x20 || r = 0x7F then [92, 120] ++ hex2 r
  else if r < 0x10000 then [92, 117] ++ hex4 r
  else [92, 85] ++ hex8 r

/-- the text between the quotes (fuel = an upper bound of the number of runes) -/
def quoteBody (ip : Nat → Bool) : Nat → List Nat → Txt
  | 0, _ => []
  | _, [] => []
  | f+1, c :: cs =>
    quotePiece ip (c :: cs) (decodeHead (c :: cs)).1 (decodeHead (c :: cs)).2 ++
      quoteBody ip f ((c :: cs).drop (decodeHead (c :: cs)).2)

/-- strconv.Quote with a given printability predicate -/
def quoteWith (ip : Nat → Bool) (t : Txt) : Txt := [34] ++ quoteBody ip (t.length + 1) t ++ [34]

/-- strconv.Quote -/
def quote (t : Txt) : Txt := quoteWith isPrint t

/-- a field name of a template: c<k> ↦ k, val ↦ 0, qval ↦ 100 -/
def fieldIndex (name : String) : Option Nat :=
  if name = "val" then some 0 else if name = "qval" then some 100
  else if name.startsWith "c" then (name.drop 1).toString.toNat? else none

/-- templates as EXTRACTED from prettyPrinterMap of the tree under test -/
def tmplGen (key : String) : Option (List (String ⊕ Nat)) :=
  match Ecal.Gen.C08.templates.find? (·.1 = key) with
  | none => none
  | some (_, pieces) => pieces.mapM fun (isField, t) =>
      if isField then (fieldIndex t).map Sum.inr else some (Sum.inl t)

/-- templates: key ↦ pieces (`inl` = text, `inr k` = child k (1-based); 0 = val, 100 = qval) — hand copy, used
    when the extractor did not understand prettyPrinterMap -/
def tmplHand (key : String) : Option (List (String ⊕ Nat)) :=
  let bin (op : String) := some [.inr 1, .inl (" " ++ op ++ " "), .inr 2]
  match key with
  | "string" => some [.inr 100] | "number" => some [.inr 0]
  | "compaccess_1" => some [.inl "[", .inr 1, .inl "]"]
  | "guard_1" => some [.inr 1]
  | ">=_2" => bin ">=" | "<=_2" => bin "<=" | "!=_2" => bin "!=" | "==_2" => bin "==" | ">_2" => bin ">" | "<_2" => bin "<"
  | "kvp_2" => bin ":" | "preset_2" => some [.inr 1, .inl "=", .inr 2]
  | "plus_1" => some [.inl "+", .inr 1] | "plus_2" => bin "+"
  | "minus_1" => some [.inl "-", .inr 1] | "minus_2" => bin "-"
  | "times_2" => bin "*" | "div_2" => bin "/" | "modint_2" => bin "%" | "divint_2" => bin "//"
  | ":=_2" => bin ":=" | "let_1" => some [.inl "let ", .inr 1]
  | "import_2" => some [.inl "import ", .inr 1, .inl " as ", .inr 2]
  | "as_1" => some [.inl "as ", .inr 1]
  | "kindmatch_1" => some [.inl "kindmatch ", .inr 1] | "scopematch_1" => some [.inl "scopematch ", .inr 1]
  | "statematch_1" => some [.inl "statematch ", .inr 1] | "priority_1" => some [.inl "priority ", .inr 1]
  | "suppresses_1" => some [.inl "suppresses ", .inr 1]
  | "function_2" => some [.inl "func ", .inr 1, .inl " {\n", .inr 2, .inl "}"]
  | "function_3" => some [.inl "func ", .inr 1, .inr 2, .inl " {\n", .inr 3, .inl "}"]
  | "return" => some [.inl "return"] | "return_1" => some [.inl "return ", .inr 1]
  | "or_2" => bin "or" | "and_2" => bin "and" | "not_1" => some [.inl "not ", .inr 1]
  | "like_2" => bin "like" | "in_2" => bin "in" | "hasprefix_2" => bin "hasprefix"
  | "hassuffix_2" => bin "hassuffix" | "notin_2" => bin "notin"
  | "true" => some [.inl "true"] | "false" => some [.inl "false"] | "null" => some [.inl "null"]
  | "loop_2" => some [.inl "for ", .inr 1, .inl " {\n", .inr 2, .inl "}"]
  | "break" => some [.inl "break"] | "continue" => some [.inl "continue"]
  | "otherwise_1" => some [.inl " otherwise {\n", .inr 1, .inl "}"]
  | "finally_1" => some [.inl " finally {\n", .inr 1, .inl "}"]
  | "mutex_2" => some [.inl "mutex ", .inr 1, .inl " {\n", .inr 2, .inl "}\n"]
  | _ => none

/-- the templates the printer model runs: the extracted ones when available -/
def tmpl (key : String) : Option (List (String ⊕ Nat)) :=
  if Ecal.Gen.C08.templatesOk then tmplGen key else tmplHand key

def listThreshold : Nat := if Ecal.Gen.C08.templatesOk then Ecal.Gen.C08.listThreshold else 4
def mapThreshold : Nat := if Ecal.Gen.C08.templatesOk then Ecal.Gen.C08.mapThreshold else 2

/-- ppIsOperator: an infix operator, or a keyword that is parsed like a prefix operator (ndPrefix) -/
def isOperator (n : Node) : Bool :=
  (n.binding != 0 && n.led != Led.none) || (n.children.length = 1 &&
    ["not", "let", "kindmatch", "scopematch", "statematch", "priority", "suppresses"].contains n.name)

/-- ppIsProductChain (fixes/C08-product-chain-brackets): the operators of the given binding on the left spine of
    `n` — printed without brackets — are products and quotients only -/
def isProductChainF : Nat → Node → Nat → Bool
  | 0, _, _ => true
  | f+1, n, binding =>
    if n.children.length != 2 || n.led = Led.none || n.binding != binding then true
    else (n.name = "times" || n.name = "div") &&
      (match n.children with | some l :: _ => isProductChainF f l binding | _ => true)

/-- (fuel = a bound on the depth of the tree; the driver's trees are far smaller) -/
def isProductChain (n : Node) (binding : Nat) : Bool := isProductChainF 100000 n binding

/-- ppNeedsBrackets(parent, child, childIndex): does the printed child need parentheses to be parsed
    again into the same position under its parent? (with fix e9f68ea: `let` and the sink attributes count
    as prefix operators) -/
def needsBrackets (parent child : Node) (childIndex : Nat) : Bool :=
  -- the value of a return statement is everything which follows it (ndReturn) — fixes/C08-return-operand-brackets
  if child.name = "return" && child.children.length = 1 && isOperator parent then true
  else if !isOperator child || !isOperator parent then false       -- only operators under operators
  else if parent.children.length = 1 then                          -- operand of a prefix operator (ndPrefix)
    decide (child.binding ≤ parent.binding + 20)
  else if child.children.length = 1 then                           -- prefix operator under an infix operator
    decide (parent.binding > child.binding + 20)
  else if parent.name = "times" && (child.name = "times" || child.name = "div") &&
      isProductChain child parent.binding then false
  else decide (parent.binding > child.binding) || (parent.binding = child.binding && childIndex > 0)

/-- what the extracted rule reads of a node; `sub` = value of its sub-tree helper ppIsProductChain -/
def bnOfNode (n : Node) (sub : Bool) : Ecal.Gen.C08.BN :=
  ⟨n.name, n.binding, n.led != Led.none, n.children.length, fun _ => sub⟩

/-- ppNeedsBrackets as EXTRACTED from the Go source of the tree under test (`Ecal.Gen.C08.needsBrackets`), with
    the model's `isProductChain` for its sub-tree helper -/
def needsBracketsGen (parent child : Node) (childIndex : Nat) : Bool :=
  Ecal.Gen.C08.needsBrackets (bnOfNode parent true) (bnOfNode child (isProductChain child parent.binding)) childIndex

/-- the bracket rule the printer model runs: the extracted rule when the extractor understood the source,
    the hand port otherwise -/
def bracketRule (parent child : Node) (childIndex : Nat) : Bool :=
  if Ecal.Gen.C08.shapeOk then needsBracketsGen parent child childIndex else needsBrackets parent child childIndex

def indentNames : List String := ["statements", "map", "list", "kindmatch", "statematch", "scopematch", "priority", "suppresses"]
def noInitialIndentParents : List String :=
  ["return", "in", ":=", "preset", "kvp", "list", "funccall", "kindmatch", "statematch", "scopematch", "priority", "suppresses"]

/-- bufio.Scanner lines: split on \n, drop one trailing \r, no final empty line -/
def scanLines (t : Txt) : List Txt :=
  let ls := splitOn 10 t
  let ls := if ls.getLast? = some [] then ls.dropLast else ls
  ls.map fun l => if l.getLast? = some 13 then l.dropLast else l

def ppMetaData (ast : Node) (txt : Txt) : Except PErr Txt :=
  ast.metas.foldlM (fun ret m => do
    if m.pre then
      let lines := scanLines m.val
      let buf : Txt := lines.flatMap fun l => [32] ++ trimSpace l ++ [10]
      let tok ← (match ast.tok with | some t => pure t | none => throw PErr.panic)
      let buf : Txt := if !buf.isEmpty && (tok.col != 1 || !(containsNl m.val)) then buf.dropLast else buf
      let buf := if !(containsNl buf) then buf ++ [32] else buf
      let ret := s "/*" ++ buf ++ s "*/\n" ++ ret
      pure (if tok.line > 1 then [10] ++ ret else ret)
    else
      let v := trimSpace (m.val.filter (· != 10))
      pure (ret ++ s " # " ++ v)) txt

def ppPostProcessing (ast : Node) (parent : Option Node) (txt : Txt) : Except PErr Txt := do
  let ret ← ppMetaData ast txt
  let ret ← (match parent with
    | some par =>
      if indentNames.contains ast.name then do
        let ind := s "    "
        let ret := replaceNl ret ([10] ++ ind)
        let ret := if !(noInitialIndentParents.contains par.name) then ind ++ ret else ret
        if par.name != "sink" || ast.name = "statements" then
          match lastNl ret with
          | some idx =>
            if idx + 5 > ret.length then throw PErr.panic else pure (ret.take (idx + 1) ++ ret.drop (idx + 5))
          | none => pure ret
        else pure ret
      else pure ret
    | none => pure ret)
  let ret := match ast.tok with
    | some t => if t.prefixNl > 1 then [10] ++ ret else ret
    | none => ret
  pure (joinWith [10] ((splitOn 10 ret).map trimRightSpace))

def c (ps : List Txt) (i : Nat) : Txt := ps.getD (i - 1) []      -- tempParam["c<i>"], "" if missing

/-- the recursive function `visit` of PrettyPrint; fuel-indexed (structural), fuel = a bound on the depth of the tree -/
def visitFQ (q : Txt → Txt) : Nat → Option Node → Option Node → Except PErr Txt
  | 0, _, _ => throw PErr.panic     -- fuel exhausted (never with `visit`'s fuel on a tree of the driver)
  | fuel+1, ast?, parent => do
  let visit := visitFQ q fuel
  let quote := q
  let ast ← (match ast? with | some a => pure a | none => throw PErr.nilNode)
  let n := ast.children.length
  -- children first
  let ps ← (ast.children.zipIdx).mapM fun (ch, i) => do
    let res ← visit ch (some ast)
    match ch with
    | some chn => pure (if bracketRule ast chn i then s "(" ++ res ++ s ")" else res)
    | none => pure res
  let key := if n > 0 then ast.name ++ "_" ++ toString n else ast.name
  let kids : List Node := ast.children.filterMap id
  let post (t : Txt) := ppPostProcessing ast parent t
  let rangeFrom (a b : Nat) : List Nat := (List.range (b - a)).map (· + a)     -- a .. b-1
  match ast.name with
  | "funccall" => post (joinWith (s ", ") ps)
  | "sink" =>
    let mid : Txt := (rangeFrom 1 (n - 1)).flatMap fun i => c ps (i + 1) ++ [10]
    post (s "sink " ++ c ps 1 ++ [10] ++ mid ++ s "{\n" ++ c ps n ++ s "}\n")
  | "statements" => post (ps.flatMap fun p => p ++ [10])
  | "try" =>
    post (s "try {\n" ++ c ps 1 ++ s "}" ++ ((rangeFrom 1 n).flatMap fun i => c ps (i + 1)))
  | "except" =>
    let parts : Txt := (rangeFrom 0 (n - 1)).flatMap fun i =>
      c ps (i + 1) ++ (if (kids.getD (i + 1) default).name != "as" && i + 2 < n then s "," else []) ++ [32]
    post (s " except " ++ parts ++ s "{\n" ++ c ps n ++ s "}")
  | "list" =>
    let multi := n > listThreshold
    let body : Txt := (rangeFrom 0 n).flatMap fun i =>
      c ps (i + 1) ++ (if i + 1 < n then (if multi then s "," else s ", ") else []) ++ (if multi then [10] else [])
    post (s "[" ++ (if multi then [10] else []) ++ body ++ s "]")
  | "map" =>
    let multi := n > mapThreshold
    let body : Txt := (rangeFrom 0 n).flatMap fun i =>
      c ps (i + 1) ++ (if i + 1 < n then (if multi then s "," else s ", ") else []) ++ (if multi then [10] else [])
    post (s "{" ++ (if multi then [10] else []) ++ body ++ s "}")
  | "identifier" =>
    let tok ← (match ast.tok with | some t => pure t | none => throw PErr.panic)
    let rest : Txt := (rangeFrom 0 n).flatMap fun i =>
      let k := (kids.getD i default).name
      if k = "identifier" then s "." ++ c ps (i + 1)
      else if k = "funccall" then s "(" ++ c ps (i + 1) ++ s ")"
      else if k = "compaccess" then c ps (i + 1) else []
    post (tok.val ++ rest)
  | "params" =>
    let front : Txt := (rangeFrom 1 n).flatMap fun i => c ps i ++ s ", "
    post (s "(" ++ front ++ c ps (max n 1) ++ s ")")
  | "if" =>
    let guard (k : Nat) : Txt := c ps k ++ s " {\n" ++ c ps (k + 1) ++ s "}"
    -- the loop `for i := 0; i < len(ast.Children); i += 2`
    let out ← ((List.range ((n + 1) / 2)).map (· * 2)).foldlM (fun (out : Txt) i => do
      -- Go: `i > 0 && i+2 == len(ast.Children) && ast.Children[i].Children[0].Name == NodeTRUE` (fix 9f2e979:
      -- the first branch is never an else branch); the guard's child is only read when the first two hold
      let isElse : Bool ← (if i > 0 && i + 2 = n then
          (match (kids.getD i default).children.head? with
            | some (some x) => pure (x.name == "true")
            | some none => throw PErr.panic
            | none => throw PErr.panic)
        else pure false)
      if isElse then
        pure (out ++ s " else {\n" ++ c ps (i + 2) ++ s "}")
      else if i > 0 then
        pure (out ++ s " elif " ++ guard (i + 1))
      else pure out) (s "if " ++ guard 1)
    post out
  | _ =>
    match tmpl key with
    | none => throw PErr.panic
    | some pieces =>
      let txt ← pieces.foldlM (fun (acc : Txt) pc => do
        match pc with
        | .inl t => pure (acc ++ s t)
        | .inr 0 => match ast.tok with | some t => pure (acc ++ t.val) | none => pure (acc ++ s "<no value>")
        | .inr 100 => match ast.tok with | some t => pure (acc ++ quote t.val) | none => pure (acc ++ s "<no value>")
        | .inr k => pure (acc ++ c ps k)) []
      post txt

/-- the recursive function `visit` of PrettyPrint with strconv.Quote for string tokens -/
def visitF : Nat → Option Node → Option Node → Except PErr Txt := visitFQ quote

/-- `visit` with a fuel far above the depth of any tree the driver sees -/
def visit (ast? : Option Node) (parent : Option Node) : Except PErr Txt := visitF 100000 ast? parent

/-- canonical spelling of a string literal for the comparison with Go: the hex digits of the VALUE between quotes
    (which escapes strconv.Quote chooses is not constrained by the property; `quote_lex_roundtrip` says that the
    literal written by `quote` is read back as exactly this value) -/
def quoteCanon (v : Txt) : Txt :=
  [34] ++ (if v.isEmpty then [45] else v.flatMap hex2) ++ [34]

/-- PrettyPrint with canonical string literals -/
def prettyPrintCanon (ast : Option Node) : Except PErr Txt := do
  let r ← visitFQ quoteCanon 100000 ast none
  pure (trimSpace r)

def prettyPrint (ast : Option Node) : Except PErr Txt := do
  let r ← visit ast none
  pure (trimSpace r)

end Ecal.Print
