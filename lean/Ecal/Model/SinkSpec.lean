/-!
# SinkSpec — what every (sink, event) of a C11 stress case must produce

The stress cases of C11 are generated from a payload: the number of sinks and their kind
patterns, fail-on-first-error, the features of the sink bodies, and a deterministic instruction
table `mix seed id salt` (kind of the event, per sink: succeed / raise / return / Go error, child
events of a cascade). This file is the specification side: from the payload alone it computes the
invocations every event causes (in trigger order, stopping after the first failure when
fail-on-first-error is on, including the children a cascading sink adds) and the outcome of each
— a function of (sink, event) only. `Ecal.Drv.C11` prints its digest; the harness prints the digest
of what the real engine + interpreter recorded.
-/
namespace Ecal.SinkSpec

structure Cfg where
  seed   : Nat
  sinks  : Nat
  ev     : Nat
  ff     : Bool
  glob   : Bool
  heavy  : Bool
  shadow : Bool
  featC  : Bool     -- cascade: sink s2 adds child events handled by sink `sc`
  featG  : Bool := false  -- the cascade is fired through a function (fresh instance state: known finding)
  deriving Repr

/-- instruction table (15 bits), the same arithmetic as `c11Mix` in go/cmd/harness/c11.go -/
def mix (seed id salt : Nat) : Nat :=
  let P := 2147483647
  let a := (seed + 1) * 1000003 + (id + 1) * 7919 + salt * 104729
  let x := (a % P) * 48271 % P
  let y := (x * x + 12345) % P
  let z := (y * 69621 + id + 1) % P
  (z / 8) % 32768

/-- kind of the event: `t.b` (true) or `t.a` -/
def kindB (c : Cfg) (id : Nat) : Bool := c.sinks ≥ 2 && mix c.seed id 0 % 2 == 1

/-- 0 succeed, 1 raise(T_<sink>_<id>, d<id>, id), 2 return id, 3 Go function failing with E_<sink>_<id>,
    4 a plain scope error carrying the id (the ErrSink branch of the action) -/
def failMode (c : Cfg) (id s : Nat) : Nat :=
  let m := mix c.seed id s
  if m % 2 == 0 then 1 + (m / 2) % 4 else 0

def cas (c : Cfg) (id : Nat) : Nat :=
  if c.featC && c.sinks ≥ 2 && mix c.seed id 7 % 2 == 0 then 2 + mix c.seed id 8 % 3 else 0

def childId (id j : Nat) : Nat := 500000 + id * 4 + j

/-- every child makes its sink `sc` add two grandchild events, handled by sink `sg` -/
def grandId (cid k : Nat) : Nat := 700000 + (cid - 500000) * 2 + k

def childFails (c : Cfg) (cid : Nat) : Bool := mix c.seed cid 1 % 2 == 0

/-- sink s1 matches `t.a`, s2 `t.*`, s3 `t.b` -/
def triggered (b : Bool) (s : Nat) : Bool := (s == 1 && !b) || s == 2 || (s == 3 && b)

/-- one invocation: sink number (4 = the child sink `sc`, 5 = the grandchild sink `sg`), the event it runs for, its outcome
    (0 = success, else the failure mode; the failure's type, detail and data name `event` and `sink`) -/
structure Inv where
  sink  : Nat
  event : Nat
  fail  : Nat
  deriving Repr, DecidableEq

/-- **The outcome of an invocation is a function of (sink, event).** -/
def outcome (c : Cfg) (sink event : Nat) : Nat :=
  if sink == 4 || sink == 5 then (if childFails c event then 1 else 0) else failMode c event sink

def children (c : Cfg) (id : Nat) : List Inv :=
  (List.range (cas c id)).flatMap fun j =>
    let cid := childId id j
    [⟨4, cid, outcome c 4 cid⟩, ⟨5, grandId cid 0, outcome c 5 (grandId cid 0)⟩,
     ⟨5, grandId cid 1, outcome c 5 (grandId cid 1)⟩]

/-- the invocations event `id` causes: triggered sinks in priority order; sink 2 adds its children
    before it possibly fails; with fail-on-first-error the sequence ends after the first failure -/
def invocationsFrom (c : Cfg) (id : Nat) (b : Bool) : List Nat → List Inv
  | [] => []
  | s :: rest =>
    if triggered b s then
      let f := outcome c s id
      let here := ⟨s, id, f⟩ :: (if s == 2 then children c id else [])
      if f != 0 && c.ff then here else here ++ invocationsFrom c id b rest
    else invocationsFrom c id b rest

def invocations (c : Cfg) (id : Nat) : List Inv :=
  invocationsFrom c id (kindB c id) ((List.range c.sinks).map (· + 1))

def modulus : Nat := 1000003

/-- record hashes, not linear in the fields (two records that exchange a field change the digest) -/
def errHash (evid sinkNo shape n sinkIn : Nat) : Nat :=
  let x := (evid * 1000003 + n * 7919 + sinkNo * 104729 + shape * 1299709 + sinkIn * 15485863 + 5) % 2147483647
  (x * x + x / 7 + 13) % modulus

def echoHash (sinkNo a b cc d acc mk : Nat) : Nat :=
  let x := (sinkNo * 15485863 + a * 1000003 + b * 7919 + cc * 104729 + d * 1299709 + acc * 611953 + mk * 3571 + 11) % 2147483647
  (x * x + x / 7 + 17) % modulus

/-- value of the accumulator the body computes: `for i in range(1, 5) { acc := acc + i + loc }` -/
def accOf (c : Cfg) (i : Inv) : Nat :=
  if i.sink == 4 || i.sink == 5 then i.event else if c.heavy then 15 + 5 * i.event else i.event

structure Digest where
  errN : Nat := 0
  errS : Nat := 0
  recN : Nat := 0
  recS : Nat := 0
  inv  : Nat := 0     -- invocations of s1..s3 (what the lock-protected global counts)

/-- `spec = false`: the code as it is — with the cascade fired through a function (`featG`) the
    failures of child and grandchild events are recorded under unrelated root monitors and are LOST
    from the report of the event (known finding error-lost-under-nested-instance-state);
    `spec = true`: what the property demands (every failure under the root's report). -/
def countsError (c : Cfg) (spec : Bool) (i : Inv) : Bool :=
  i.fail != 0 && (spec || !(c.featG && (i.sink == 4 || i.sink == 5)))

def addInv (c : Cfg) (spec : Bool) (d : Digest) (i : Inv) : Digest :=
  let d := { d with recN := d.recN + 1,
                    recS := (d.recS + echoHash i.sink i.event i.event i.event i.event (accOf c i) i.event) % modulus,
                    inv := d.inv + (if i.sink == 4 || i.sink == 5 then 0 else 1) }
  if countsError c spec i then
    { d with errN := d.errN + 1, errS := (d.errS + errHash i.event i.sink i.fail i.event i.sink) % modulus }
  else d

def digest (c : Cfg) (spec : Bool) : Digest :=
  (List.range c.ev).foldl (fun d id => (invocations c id).foldl (addInv c spec) d) {}

def line (c : Cfg) (spec : Bool := false) : String :=
  let d := digest c spec
  s!"E{d.errN}:{d.errS} R{d.recN}:{d.recS} T{if c.glob then toString d.inv else "-"} S{if c.shadow then "1" else "-"} D0"

end Ecal.SinkSpec
