import Ecal.Model.Eval
/-!
C06 — Go's panicking primitives over the values of the evaluator model (`Ecal.Ev.Val`), and the
guarded call sites of the interpreter written as `guard → GoPrim.op` (`Site.*`), exactly as the Go
code of /repo has them after ee44ab4; next to each repaired site its UNGUARDED variant (the code
before the repair).

`Ecal/Lemmas/C06Guards.lean` proves, per site,
  * REFINEMENT: the expression the evaluator model `Ecal.Ev` uses at that place equals the site
    (so the model that is compared with Go on every run IS "guard, then the Go primitive");
  * SUFFICIENCY: under the guard the primitive does not panic (for all operands);
  * NECESSITY (negative witness): the unguarded variant panics on the input of the repaired defect.

A primitive returns `Sig.panic` exactly when the Go operation panics:
  `index setIndex`   `xs[i]`, `xs[i] = v`            index out of range
  `slice`            `b[lo:hi]` (b: backing array)   slice bounds out of range (0 ≤ lo ≤ hi ≤ cap)
  `mapStore`         `m[k] = v`, interface key       hash of unhashable type (list / map key)
  `intMod`           `int64 % int64`                 integer divide by zero
  `ifaceEq`          `a == b` on interfaces          comparing uncomparable type (two lists / two maps)
  `assertNum …`      `v.(T)` without comma-ok        interface conversion
-/
namespace Ecal.GoPrim
open Ecal.Ev

abbrev R := Except Sig

def index (xs : List Val) (i : Int) : R Val :=
  if 0 ≤ i ∧ i < xs.length then .ok (xs.getD i.toNat Val.null) else .error Sig.panic

def setIndex (xs : List Val) (i : Int) (v : Val) : R (List Val) :=
  if 0 ≤ i ∧ i < xs.length then .ok (xs.set i.toNat v) else .error Sig.panic

/-- `b[lo:hi]` where `b` is the whole backing array (capacity = `b.length`) -/
def slice (b : List Val) (lo hi : Int) : R (List Val) :=
  if 0 ≤ lo ∧ lo ≤ hi ∧ hi ≤ b.length then .ok ((b.take hi.toNat).drop lo.toNat) else .error Sig.panic

def mapStore (kvs : List (Val × Val)) (k v : Val) : R (List (Val × Val)) :=
  if hashable k then .ok (Ecal.Ev.mapStore kvs k v) else .error Sig.panic

def intMod (a b : Int) : R Int := if b = 0 then .error Sig.panic else .ok (a.tmod b)

/-- the dynamic type of the interface value is not comparable -/
def uncomparable : Val → Bool
  | .list _ _ => true | .map _ => true | _ => false

def sameDyn : Val → Val → Bool
  | .null, .null => true | .bool _, .bool _ => true | .num _, .num _ => true | .str _, .str _ => true
  | .list _ _, .list _ _ => true | .map _, .map _ => true | .func _, .func _ => true | .builtin _, .builtin _ => true
  | _, _ => false

/-- Go `==` on two interface values -/
def ifaceEq (a b : Val) : R Bool :=
  if sameDyn a b && uncomparable a then .error Sig.panic else .ok (keyEq a b)

def assertNum : Val → R Float
  | .num x => .ok x | _ => .error Sig.panic
def assertBool : Val → R Bool
  | .bool b => .ok b | _ => .error Sig.panic
/-- `x, ok := v.(float64)` -/
def numOk : Val → Option Float
  | .num x => some x | _ => none
def boolOk : Val → Option Bool
  | .bool b => some b | _ => none

/-! ### guarded sites (current code) and their unguarded variants -/
namespace Site

def adjust (len : Nat) (i : Int) : Int := if i < 0 then i + len else i

/-- scope/varsscope.go getValue / containerAccess: `index, err := strconv.Atoi(f); if index < 0 { index += len };
    if index >= 0 && index < len { list[index] } else error` — `xs` are the elements of the slice -/
def listRead (xs : List Val) (fld : List Nat) : R Val :=
  match atoi fld with
  | none => .error (plain "List needs a number index")
  | some i =>
    let i := adjust xs.length i
    if 0 ≤ i ∧ i < xs.length then index xs i else .error (plain "Out of bounds access to list")

/-- before ee44ab4: `if index < len(listContainer)` only -/
def listReadUnguarded (xs : List Val) (fld : List Nat) : R Val :=
  match atoi fld with
  | none => .error (plain "List needs a number index")
  | some i =>
    let i := adjust xs.length i
    if i < xs.length then index xs i else .error (plain "Out of bounds access to list")

/-- varsscope.go setValue: the same guard before `list[index] = v` -/
def listWrite (xs : List Val) (fld : List Nat) (v : Val) : R (List Val) :=
  match atoi fld with
  | none => .error (plain "List needs a number index")
  | some i =>
    let i := adjust xs.length i
    if 0 ≤ i ∧ i < xs.length then setIndex xs i v else .error (plain "Out of bounds access to list")

def listWriteUnguarded (xs : List Val) (fld : List Nat) (v : Val) : R (List Val) :=
  match atoi fld with
  | none => .error (plain "List needs a number index")
  | some i =>
    let i := adjust xs.length i
    if i < xs.length then setIndex xs i v else .error (plain "Out of bounds access to list")

/-- func_provider.go delFunc (current code, after 4ad50aa): `if i < 0 || i >= len(argList) { error } else
    { newList := make(…, 0, len-1); newList = append(newList, argList[:i]...); append(newList, argList[i+1:]...) }`;
    `xs` are the elements of the slice (both slice expressions are taken on the slice: bounds 0 ≤ lo ≤ hi ≤ len);
    result: the elements of the NEW list -/
def del (xs : List Val) (i : Int) : R (List Val) :=
  if i < 0 ∨ i ≥ xs.length then .error (plain "Out of bounds access to list")
  else do
    let left ← slice xs 0 i
    let right ← slice xs (i + 1) xs.length
    pure (left ++ right)

/-- the current code without its bounds test -/
def delUnguarded (xs : List Val) (i : Int) : R (List Val) := do
  let left ← slice xs 0 i
  let right ← slice xs (i + 1) xs.length
  pure (left ++ right)

/-- before ee44ab4 (and before 4ad50aa): `append(argList[:int(index)], argList[int(index+1):]...)` in place, no bounds
    test; `b` is the backing array, `l` the length of the slice -/
def delOldUnguarded (b : List Val) (l : Nat) (i : Int) : R (List Val) := do
  let left ← slice b 0 i
  let right ← slice (b.take l) (i + 1) l
  pure (left ++ right ++ b.drop (l - 1))

/-- func_provider.go addFunc with an index (current code, after 4ad50aa): `if i < 0 || i > len(argList) { error }`,
    then a NEW list from `argList[:i]`, the value, `argList[i:]` -/
def insert (xs : List Val) (v : Val) (i : Int) : R (List Val) :=
  if i < 0 ∨ i > xs.length then .error (plain "Out of bounds access to list")
  else do
    let left ← slice xs 0 i
    let right ← slice xs i xs.length
    pure (left ++ [v] ++ right)

def insertUnguarded (xs : List Val) (v : Val) (i : Int) : R (List Val) := do
  let left ← slice xs 0 i
  let right ← slice xs i xs.length
  pure (left ++ [v] ++ right)

/-- before ee44ab4: `argList = append(argList, 0); copy(argList[i+1:], argList[i:]); argList[i] = v` without a
    bounds test (`cur`: the l+1 elements after the append) -/
def insertOldUnguarded (cur : List Val) (v : Val) (i : Int) : R (List Val) := do
  let dst ← slice cur (i + 1) cur.length
  let src ← slice cur i cur.length
  setIndex (cur.take (i.toNat + 1) ++ src.take dst.length) i v

/-- rt_value.go mapValueRuntime: `if key != nil && !reflect.TypeOf(key).Comparable() { error } else { m[key] = val }` -/
def mapLit (kvs : List (Val × Val)) (k v : Val) (errAt : Sig) : R (List (Val × Val)) :=
  if !(hashable k) then .error errAt else mapStore kvs k v

def mapLitUnguarded (kvs : List (Val × Val)) (k v : Val) : R (List (Val × Val)) := mapStore kvs k v

/-- rt_arithmetic.go modintOpRuntime: `if int64(n2) == 0 { error } else { int64(n1) % int64(n2) }` -/
def modint (a b : Int) (err : Sig) : R Int := if b = 0 then .error err else intMod a b

def modintUnguarded (a b : Int) : R Int := intMod a b

/-- rt_boolean.go valuesEqual: `if t1 != nil && t1 == t2 && !t1.Comparable() { reflect.DeepEqual } else { v1 == v2 }`;
    `deep` stands for the result of reflect.DeepEqual (which never panics) -/
def valuesEqual (a b : Val) (deep : Bool) : R Bool :=
  if sameDyn a b && uncomparable a then .ok deep else ifaceEq a b

/-- before ee44ab4: `n1 == n2` -/
def valuesEqualUnguarded (a b : Val) : R Bool := ifaceEq a b

/-- rt_general.go numOp: both operands asserted with comma-ok, the unchecked conversion only after it -/
def numOperands (a b : Val) (errA errB : Sig) : R (Float × Float) :=
  match numOk a, numOk b with
  | some _, some _ => do let x ← assertNum a; let y ← assertNum b; pure (x, y)
  | some _, none => .error errB
  | none, _ => .error errA

def numOperandsUnguarded (a b : Val) : R (Float × Float) := do
  let x ← assertNum a; let y ← assertNum b; pure (x, y)

end Site
end Ecal.GoPrim
