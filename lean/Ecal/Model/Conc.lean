/-!
# Conc — threads over a shared store (shared model of C11 and C13)

`N` threads (N is not fixed: thread ids are natural numbers), each a deterministic
step function over its own local state plus a shared store of named cells
`X → V`. A schedule is a list of thread ids; `run` executes it (interleaving
semantics, every step atomic).

Every access of a step to the shared store falls in one of three classes:

* read only — the step leaves the store as it is;
* lock-protected / atomic update of a named cell in an *allowed* set `A`
  (the instance counter; global ECAL variables behind the scope lock);
* any other (unprotected) shared write.

`WritesWithin sys A` says that no step writes outside `A` (no writes of the
third class). `Confined sys A low` says that the part `low` of a thread's state —
the observable the property talks about — is computed without looking at cells
of `A` (values read from such cells flow only into the rest of the thread state:
instance ids, values of explicitly shared globals).

`isolation_mod` : under these two conditions, for every number of threads and
every schedule, `low` of every thread equals `low` of the same thread running
**alone** from the same initial store for the same number of its own steps, and
cells outside `A` are unchanged. `isolation` is the special case `A = ∅`, `low = id`.

The file also contains the two concrete families used by the properties:
`parserSys` (C13: `{`-lookup in the grammar table; unrepaired = rewrite of the
package-level table entry, repaired = per-parse flag). The C11 models live in
`Model/SinkClosure`, `Model/Scope`, `Model/ScopeLock`, `Model/SinkSpec`.
-/
namespace Ecal.Conc

variable {X V L O : Type}

/-- a concurrent system: thread `t` performs one deterministic step on the shared
    store and its own local state -/
structure Sys (X V L : Type) where
  step : Nat → (X → V) → L → (X → V) × L

structure State (X V L : Type) where
  shared : X → V
  locals : Nat → L

def setLocal (ls : Nat → L) (t : Nat) (l : L) : Nat → L :=
  fun x => if x = t then l else ls x

/-- execute a schedule (a list of thread ids) -/
def run (sys : Sys X V L) (s : State X V L) : List Nat → State X V L
  | [] => s
  | t :: sched =>
    let r := sys.step t s.shared (s.locals t)
    run sys ⟨r.1, setLocal s.locals t r.2⟩ sched

/-- thread `t` running alone for `n` of its own steps from store `g` and local state `l` -/
def alone (sys : Sys X V L) (t : Nat) : Nat → (X → V) → L → (X → V) × L
  | 0, g, l => (g, l)
  | n + 1, g, l =>
    let r := sys.step t g l
    alone sys t n r.1 r.2

/-- no step writes a cell outside `A` -/
def WritesWithin (sys : Sys X V L) (A : X → Prop) : Prop :=
  ∀ t g l x, ¬ A x → (sys.step t g l).1 x = g x

/-- the `low` part of a thread's next state depends neither on the cells in `A`
    nor on the rest of the thread's state -/
def Confined (sys : Sys X V L) (A : X → Prop) (low : L → O) : Prop :=
  ∀ t g g' l l', (∀ x, ¬ A x → g x = g' x) → low l = low l' →
    low (sys.step t g l).2 = low (sys.step t g' l').2

theorem alone_congr (sys : Sys X V L) (A : X → Prop) (low : L → O)
    (hW : WritesWithin sys A) (hC : Confined sys A low) (t n : Nat) :
    ∀ g g' l l', (∀ x, ¬ A x → g x = g' x) → low l = low l' →
      low (alone sys t n g l).2 = low (alone sys t n g' l').2 := by
  induction n with
  | zero => intro g g' l l' _ hl; simpa [alone] using hl
  | succ n ih =>
    intro g g' l l' hg hl
    simp only [alone]
    apply ih
    · intro x hx
      rw [hW t g l x hx, hW t g' l' x hx]
      exact hg x hx
    · exact hC t g g' l l' hg hl

/-- **Non-interference.** If no step writes outside `A` and `low` is confined
    w.r.t. `A`, then for every schedule the cells outside `A` are unchanged and
    the `low` part of every thread is what it is when the thread runs alone. -/
theorem isolation_mod (sys : Sys X V L) (A : X → Prop) (low : L → O)
    (hW : WritesWithin sys A) (hC : Confined sys A low)
    (s : State X V L) (sched : List Nat) :
    (∀ x, ¬ A x → (run sys s sched).shared x = s.shared x) ∧
    ∀ t, low ((run sys s sched).locals t)
        = low (alone sys t (sched.count t) s.shared (s.locals t)).2 := by
  induction sched generalizing s with
  | nil => simp [run, alone]
  | cons u sched ih =>
    simp only [run]
    obtain ⟨h1, h2⟩ := ih ⟨(sys.step u s.shared (s.locals u)).1,
      setLocal s.locals u (sys.step u s.shared (s.locals u)).2⟩
    refine ⟨?_, ?_⟩
    · intro x hx
      rw [h1 x hx]
      exact hW u s.shared (s.locals u) x hx
    · intro t
      rw [h2 t]
      by_cases htu : t = u
      · subst htu
        simp [setLocal, alone]
      · have hut : ¬ u = t := fun h => htu h.symm
        have hc : (u :: sched).count t = sched.count t := by
          simp [hut]
        rw [hc]
        simp only [setLocal, if_neg htu]
        apply alone_congr sys A low hW hC
        · intro x hx
          exact hW u s.shared (s.locals u) x hx
        · rfl

theorem confined_empty (sys : Sys X V L) : Confined sys (fun _ => False) (fun l : L => l) := by
  intro t g g' l l' hg hl
  have : g = g' := funext fun x => hg x (fun h => h)
  subst this
  simp only at hl
  subst hl
  rfl

/-- **Isolation** (no shared write at all): the store never changes and every
    thread ends exactly where it ends running alone. -/
theorem isolation (sys : Sys X V L) (hW : WritesWithin sys (fun _ => False))
    (s : State X V L) (sched : List Nat) :
    (run sys s sched).shared = s.shared ∧
    ∀ t, (run sys s sched).locals t = (alone sys t (sched.count t) s.shared (s.locals t)).2 := by
  obtain ⟨h1, h2⟩ := isolation_mod sys (fun _ => False) (fun l : L => l) hW (confined_empty sys) s sched
  exact ⟨funext fun x => h1 x (fun h => h), h2⟩

/-- **Isolation relative to an invariant of the thread states**: `hW` is only needed for local
    states satisfying `I` (all reachable ones, if `I` holds initially and is preserved). -/
theorem isolation_inv (sys : Sys X V L) (I : L → Prop)
    (hI : ∀ t g l, I l → I (sys.step t g l).2)
    (hW : ∀ t g l x, I l → (sys.step t g l).1 x = g x)
    (sched : List Nat) : ∀ (s : State X V L), (∀ t, I (s.locals t)) →
    (run sys s sched).shared = s.shared ∧
    ∀ t, (run sys s sched).locals t = (alone sys t (sched.count t) s.shared (s.locals t)).2 ∧
         I ((run sys s sched).locals t) := by
  induction sched with
  | nil => intro s h0; exact ⟨rfl, fun t => ⟨rfl, h0 t⟩⟩
  | cons u sched ih =>
    intro s h0
    simp only [run]
    have hsh : (sys.step u s.shared (s.locals u)).1 = s.shared :=
      funext fun x => hW u s.shared (s.locals u) x (h0 u)
    have h0' : ∀ t, I (setLocal s.locals u (sys.step u s.shared (s.locals u)).2 t) := by
      intro t
      by_cases htu : t = u
      · subst htu; simp only [setLocal, if_true]; exact hI t _ _ (h0 t)
      · simp only [setLocal, if_neg htu]; exact h0 t
    obtain ⟨h1, h2⟩ := ih ⟨(sys.step u s.shared (s.locals u)).1,
      setLocal s.locals u (sys.step u s.shared (s.locals u)).2⟩ h0'
    refine ⟨h1.trans hsh, ?_⟩
    intro t
    refine ⟨?_, (h2 t).2⟩
    rw [(h2 t).1]
    by_cases htu : t = u
    · subst htu
      simp [setLocal, alone]
    · have hut : ¬ u = t := fun h => htu h.symm
      have hc : (u :: sched).count t = sched.count t := by simp [hut]
      rw [hc]
      simp only [setLocal, if_neg htu, hsh]

/-! ## Commuting lock-protected updates -/

/-- two states agree on the shared store and on the `low` part of every thread -/
def LowEq (low : L → O) (s s' : State X V L) : Prop :=
  s.shared = s'.shared ∧ ∀ t, low (s.locals t) = low (s'.locals t)

/-- the store update of a step is an operation determined by the thread and its `low` part -/
def UpdatesBy (sys : Sys X V L) (low : L → O) (upd : Nat → O → (X → V) → (X → V)) : Prop :=
  ∀ t g l, (sys.step t g l).1 = upd t (low l) g

theorem run_lowEq (sys : Sys X V L) (A : X → Prop) (low : L → O)
    (upd : Nat → O → (X → V) → (X → V))
    (hC : Confined sys A low) (hU : UpdatesBy sys low upd) (sched : List Nat) :
    ∀ s s', LowEq low s s' → LowEq low (run sys s sched) (run sys s' sched) := by
  induction sched with
  | nil => intro s s' h; simpa [run] using h
  | cons u sched ih =>
    intro s s' h
    simp only [run]
    apply ih
    obtain ⟨hg, hl⟩ := h
    refine ⟨?_, ?_⟩
    · show (sys.step u s.shared (s.locals u)).1 = (sys.step u s'.shared (s'.locals u)).1
      rw [hU u, hU u, hg, hl u]
    · intro t
      show low (setLocal s.locals u _ t) = low (setLocal s'.locals u _ t)
      by_cases htu : t = u
      · subst htu
        simp only [setLocal, if_true]
        exact hC t _ _ _ _ (fun x _ => by rw [hg]) (hl t)
      · simp only [setLocal, if_neg htu]
        exact hl t

theorem swap_lowEq (sys : Sys X V L) (A : X → Prop) (low : L → O)
    (upd : Nat → O → (X → V) → (X → V))
    (hW : WritesWithin sys A) (hC : Confined sys A low) (hU : UpdatesBy sys low upd)
    (hcomm : ∀ t t' o o' g, t ≠ t' → upd t o (upd t' o' g) = upd t' o' (upd t o g))
    (s : State X V L) (u v : Nat) :
    LowEq low (run sys s [u, v]) (run sys s [v, u]) := by
  by_cases huv : u = v
  · subst huv; exact ⟨rfl, fun _ => rfl⟩
  · have hvu : ¬ v = u := fun h => huv h.symm
    have hU' : ∀ t g l, (sys.step t g l).1 = upd t (low l) g := hU
    simp only [run, setLocal, if_neg huv, if_neg hvu]
    refine ⟨?_, ?_⟩
    · simp only [hU']
      exact (hcomm u v _ _ _ huv).symm
    · intro t
      unfold setLocal
      by_cases htu : t = u
      · subst htu
        simp only [if_neg huv, if_true]
        exact hC t _ _ _ _ (fun x hx => (hW v _ _ x hx).symm) rfl
      · by_cases htv : t = v
        · subst htv
          simp only [if_true, if_neg htu]
          exact hC t _ _ _ _ (fun x hx => hW u _ _ x hx) rfl
        · simp only [if_neg htu, if_neg htv]

theorem LowEq.trans {low : L → O} {a b c : State X V L} (h1 : LowEq low a b) (h2 : LowEq low b c) :
    LowEq low a c := ⟨h1.1.trans h2.1, fun t => (h1.2 t).trans (h2.2 t)⟩

theorem run_append (sys : Sys X V L) (s : State X V L) (a b : List Nat) :
    run sys s (a ++ b) = run sys (run sys s a) b := by
  induction a generalizing s with
  | nil => rfl
  | cons x a ih => simp only [List.cons_append, run]; exact ih _

/-- **Commuting atomic updates.** If the lock-protected updates of different threads
    commute, the final shared store and the `low` part of every thread are the same for
    all interleavings of the same steps (all permutations of a schedule). -/
theorem perm_lowEq (sys : Sys X V L) (A : X → Prop) (low : L → O)
    (upd : Nat → O → (X → V) → (X → V))
    (hW : WritesWithin sys A) (hC : Confined sys A low) (hU : UpdatesBy sys low upd)
    (hcomm : ∀ t t' o o' g, t ≠ t' → upd t o (upd t' o' g) = upd t' o' (upd t o g))
    {sched sched' : List Nat} (hp : sched.Perm sched') :
    ∀ s, LowEq low (run sys s sched) (run sys s sched') := by
  induction hp with
  | nil => intro s; exact ⟨rfl, fun _ => rfl⟩
  | cons x _ ih => intro s; simp only [run]; exact ih _
  | swap x y l =>
    intro s
    have h := swap_lowEq sys A low upd hW hC hU hcomm s y x
    have := run_lowEq sys A low upd hC hU l _ _ h
    rw [← run_append, ← run_append] at this
    simpa using this
  | trans _ _ ih1 ih2 => intro s; exact (ih1 s).trans (ih2 s)

/-! ## C13 — the `{` entry of the grammar table -/

/-- how a `{` token is read -/
inductive Brace | mapLit | block
  deriving DecidableEq, Repr, Inhabited

/-- the parser operations that matter: entering / leaving the guard expression of an
    `if` / `for` (ndGuard, ndLoop), and reading a `{` token (parser.next) -/
inductive POp | guardBegin | guardEnd | brace | other
  deriving DecidableEq, Repr, Inhabited

structure PLoc where
  prog  : List POp            -- remaining operations of this parse
  depth : Nat := 0            -- repaired code: LABuffer.braceStartsBlock (per parse)
  saved : List Brace := []    -- unrepaired code: nodeMapEntryBak of the active ndGuard / ndLoop calls
  out   : List Brace := []    -- how each `{` was read, newest first (the parse result)
  deriving DecidableEq, Repr, Inhabited

/-- name of the shared cell: the package-level table entry `astNodeMap[TokenLBRACE]` -/
def tableCell : String := "parser.astNodeMap"

/-- One parser step. `repaired = false`: the code before the repair — guardBegin saves
    the table entry and overwrites it, guardEnd restores it, `{` is read from the table.
    `repaired = true`: the code as it is — a per-parse counter, `{` read from the
    (never written) table unless the counter is positive. -/
def parserStep (repaired : Bool) (g : String → Brace) (l : PLoc) : (String → Brace) × PLoc :=
  match l.prog with
  | [] => (g, l)
  | op :: rest =>
    let l := { l with prog := rest }
    if repaired then
      match op with
      | .guardBegin => (g, { l with depth := l.depth + 1 })
      | .guardEnd => (g, { l with depth := l.depth - 1 })
      | .brace => (g, { l with out := (if l.depth > 0 then Brace.block else g tableCell) :: l.out })
      | .other => (g, l)
    else
      match op with
      | .guardBegin =>
        (fun x => if x = tableCell then Brace.block else g x, { l with saved := g tableCell :: l.saved })
      | .guardEnd =>
        match l.saved with
        | [] => (g, l)
        | b :: bs => (fun x => if x = tableCell then b else g x, { l with saved := bs })
      | .brace => (g, { l with out := g tableCell :: l.out })
      | .other => (g, l)

def parserSys (repaired : Bool) : Sys String Brace PLoc := ⟨fun _ => parserStep repaired⟩

/-- the repaired parser never writes the shared store -/
theorem parserSys_repaired_readonly : WritesWithin (parserSys true) (fun _ => False) := by
  intro t g l x _
  simp only [parserSys, parserStep]
  cases hp : l.prog with
  | nil => rfl
  | cons op rest => cases op <;> rfl

/-- the local effect of a repaired step depends on the store only through the table cell -/
theorem parserStep_repaired_local (g g' : String → Brace) (l : PLoc) (h : g tableCell = g' tableCell) :
    ((parserSys true).step 0 g l).2 = ((parserSys true).step 0 g' l).2 := by
  simp only [parserSys, parserStep]
  cases hp : l.prog with
  | nil => rfl
  | cons op rest => cases op <;> simp [h]

/-! ## C13 — instance ids from a shared counter -/

structure ILoc where
  todo : Nat                  -- runtime components this parse still has to create
  tmp  : Option Nat := none   -- non-atomic variant: the counter value read by `counter++`
  ids  : List Nat := []       -- instance ids of the components created so far
  deriving DecidableEq, Repr, Inhabited

/-- the package-level variable, named as the extractor names it -/
def counterCell : String := "interpreter.instanceCounter"

/-- One step of a parse creating runtime components. `atomic = true`: `atomic.AddUint64` — the
    counter is incremented and the new value taken in one step. `atomic = false`: `counter++`
    followed by a read — a read step and a write step. -/
def idStep (atomic : Bool) (g : String → Nat) (l : ILoc) : (String → Nat) × ILoc :=
  if l.todo = 0 then (g, l)
  else if atomic then
    (fun x => if x = counterCell then g counterCell + 1 else g x,
     { l with todo := l.todo - 1, ids := (g counterCell + 1) :: l.ids })
  else
    match l.tmp with
    | none => (g, { l with tmp := some (g counterCell) })
    | some v =>
      (fun x => if x = counterCell then v + 1 else g x,
       { l with todo := l.todo - 1, tmp := none, ids := (v + 1) :: l.ids })

def idSys (atomic : Bool) : Sys String Nat ILoc := ⟨fun _ => idStep atomic⟩

/-- all ids handed out so far are at most the counter, every thread's ids are distinct, and
    different threads hold disjoint ids -/
def IdsInv (s : State String Nat ILoc) : Prop :=
  (∀ t a, a ∈ (s.locals t).ids → a ≤ s.shared counterCell) ∧
  (∀ t, (s.locals t).ids.Nodup) ∧
  (∀ t t' a, t ≠ t' → a ∈ (s.locals t).ids → a ∉ (s.locals t').ids)

theorem idsInv_step (s : State String Nat ILoc) (u : Nat) (h : IdsInv s) :
    IdsInv (run (idSys true) s [u]) := by
  obtain ⟨hb, hn, hd⟩ := h
  simp only [run, idSys, idStep]
  by_cases h0 : (s.locals u).todo = 0
  · simp only [h0, if_true]
    refine ⟨?_, ?_, ?_⟩
    · intro t a ha
      by_cases htu : t = u
      · subst htu; simp only [setLocal, if_true] at ha; exact hb t a ha
      · simp only [setLocal, if_neg htu] at ha; exact hb t a ha
    · intro t
      by_cases htu : t = u
      · subst htu; simp only [setLocal, if_true]; exact hn t
      · simp only [setLocal, if_neg htu]; exact hn t
    · intro t t' a htt ha
      have e : ∀ x, (setLocal s.locals u (s.locals u) x) = s.locals x := by
        intro x; by_cases hx : x = u
        · subst hx; simp [setLocal]
        · simp [setLocal, hx]
      simp only [e] at ha ⊢
      exact hd t t' a htt ha
  · simp only [h0, if_false, if_true]
    refine ⟨?_, ?_, ?_⟩
    · intro t a ha
      simp only [if_true]
      by_cases htu : t = u
      · subst htu
        simp only [setLocal, if_true, List.mem_cons] at ha
        rcases ha with rfl | ha
        · exact Nat.le_refl _
        · exact Nat.le_succ_of_le (hb t a ha)
      · simp only [setLocal, if_neg htu] at ha
        exact Nat.le_succ_of_le (hb t a ha)
    · intro t
      by_cases htu : t = u
      · subst htu
        simp only [setLocal, if_true, List.nodup_cons]
        refine ⟨fun hm => ?_, hn t⟩
        have := hb t _ hm
        omega
      · simp only [setLocal, if_neg htu]; exact hn t
    · intro t t' a htt ha
      by_cases htu : t = u
      · subst htu
        have ht' : ¬ t' = t := fun e => htt e.symm
        simp only [setLocal, if_true, List.mem_cons] at ha
        simp only [setLocal, if_neg ht']
        rcases ha with rfl | ha
        · intro hm; have := hb t' _ hm; omega
        · exact hd t t' a htt ha
      · simp only [setLocal, if_neg htu] at ha
        by_cases ht'u : t' = u
        · subst ht'u
          simp only [setLocal, if_true, List.mem_cons, not_or]
          refine ⟨fun e => ?_, hd t t' a htt ha⟩
          have := hb t a ha
          omega
        · simp only [setLocal, if_neg ht'u]
          exact hd t t' a htt ha

theorem idsInv_run (sched : List Nat) : ∀ s, IdsInv s → IdsInv (run (idSys true) s sched) := by
  induction sched with
  | nil => intro s h; simpa [run] using h
  | cons u sched ih =>
    intro s h
    have := ih _ (idsInv_step s u h)
    simpa [run] using this

/-! ## C11 — where the invocation scope stores `event` -/

/-- Does a scope set-up sequence (constructor, stores, parent link, evaluation — in source
    order) keep every store in the fresh scope? `SetValue` resolves the name through the parent
    chain, so it is local only while the scope has no parent; `SetLocalValue` is always local.
    `linked` = the scope has (or may have) a parent. -/
def storesLocal : Bool → List (String × String) → Bool
  | _, [] => true
  | linked, (op, _) :: rest =>
    if op = "NewScope" then storesLocal false rest
    else if op = "NewScopeWithParent" || op = "NewChild" || op = "SetParentOfScope" then storesLocal true rest
    else if op = "SetValue" then !linked && storesLocal linked rest
    else storesLocal linked rest

/-- the set-up keeps its stores local and does store each of the `required` names -/
def setupKeepsLocal (setup : List (String × String)) (required : List String) : Bool :=
  storesLocal true setup &&
  required.all fun n => setup.any fun c => (c.1 = "SetValue" || c.1 = "SetLocalValue") && c.2 = n

/-- `idSys` writes the counter cell only -/
theorem idSys_writes_counter (atomic : Bool) : WritesWithin (idSys atomic) (· = counterCell) := by
  intro t g l x hx
  simp only [idSys, idStep]
  split
  · rfl
  · split
    · simp [hx]
    · split
      · rfl
      · simp [hx]

/-! ## Product of two systems over the same cell names -/

/-- both components step together; the store holds a pair per cell -/
def prodSys {X VA VB LA LB : Type} (a : Sys X VA LA) (b : Sys X VB LB) : Sys X (VA × VB) (LA × LB) :=
  ⟨fun t g l =>
    let ra := a.step t (fun x => (g x).1) l.1
    let rb := b.step t (fun x => (g x).2) l.2
    (fun x => (ra.1 x, rb.1 x), (ra.2, rb.2))⟩

theorem prodSys_writesWithin {X VA VB LA LB : Type} (a : Sys X VA LA) (b : Sys X VB LB) (A : X → Prop)
    (ha : WritesWithin a A) (hb : WritesWithin b A) : WritesWithin (prodSys a b) A := by
  intro t g l x hx
  simp only [prodSys]
  rw [ha t _ _ x hx, hb t _ _ x hx]

/-- the first component is confined w.r.t. `A` in the product if, alone, its local state depends on
    the store only through cells outside `A` -/
theorem prodSys_confined_fst {X VA VB LA LB : Type} (a : Sys X VA LA) (b : Sys X VB LB) (A : X → Prop)
    (ha : ∀ t g g' l, (∀ x, ¬ A x → g x = g' x) → (a.step t g l).2 = (a.step t g' l).2) :
    Confined (prodSys a b) A (fun l : LA × LB => l.1) := by
  intro t g g' l l' hg hl
  simp only at hl
  simp only [prodSys]
  rw [hl]
  exact ha t _ _ _ (fun x hx => by rw [hg x hx])

/-! ## An explicitly shared, lock-protected global (example system) -/

/-- Invocations that each add their own event id to a lock-protected global counter `total`
    and remember the value they saw. The remembered value is the part that is *not* isolated
    (it is explicitly shared); the private part `low` is the event id. -/
def counterSys : Sys String Nat (Nat × Nat) :=
  ⟨fun _ g l => (fun x => if x = "total" then g x + l.1 else g x, (l.1, g "total"))⟩

theorem counterSys_writes : WritesWithin counterSys (· ∈ ([] : List String) ++ ["total"]) := by
  intro t g l x hx
  have : x ≠ "total" := by simpa using hx
  simp [counterSys, this]

theorem counterSys_confined : Confined counterSys (· ∈ ["total"]) (·.1) := by
  intro t g g' l l' _ hl
  simpa [counterSys] using hl

end Ecal.Conc
