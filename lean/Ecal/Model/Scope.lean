import Ecal.Model.Conc
/-!
# Scope — a small model of scope/varsscope.go (storage, parent, SetValue / SetLocalValue / GetValue)

A scope is a storage (association list). A *chain* is a scope followed by its parents
(innermost first). `setValue` follows `varsScope.setValue` for plain names: the variable is
written in the first scope of the chain that already holds it (`getScopeForVariable`), and
created in the innermost scope when no scope holds it. `setLocalValue` always writes the
innermost scope. `getValue` reads the first scope that holds the name.

`interp` interprets a scope set-up sequence as extracted from the Go source (constructor, stores,
parent link, evaluation — `Ecal.Gen.C11.sinkScopeSetup`, `funcRunScopeSetup`) on a state made of
the fresh scope, the flag "linked to its parent" and the parent chain. The main lemma:
`storesLocal` (the syntactic check of the extracted sequence) implies that interpreting the
sequence leaves every parent storage unchanged and that every stored name ends up in the fresh
scope — whatever the parents contain.
-/
namespace Ecal.Scope
open Ecal.Conc

abbrev Storage := String → Option Nat

def Storage.empty : Storage := fun _ => none

def Storage.has (s : Storage) (n : String) : Bool := (s n).isSome

def Storage.get (s : Storage) (n : String) : Option Nat := s n

def Storage.put (s : Storage) (n : String) (v : Nat) : Storage := fun x => if x = n then some v else s x

/-- innermost scope first -/
abbrev Chain := List Storage

/-- `varsScope.setValue` for a plain name: write where the name lives, else create innermost -/
def setValue : Chain → String → Nat → Chain
  | [], _, _ => []
  | [s], n, v => [s.put n v]
  | s :: p :: rest, n, v =>
    if s.has n then s.put n v :: p :: rest
    else if (p :: rest).any (·.has n) then s :: setValue (p :: rest) n v
    else s.put n v :: p :: rest

def getValue : Chain → String → Option Nat
  | [], _ => none
  | s :: rest, n => if s.has n then s.get n else getValue rest n

structure SetupState where
  own     : Storage := Storage.empty       -- the fresh scope of the invocation / call frame
  linked  : Bool := true        -- does it have (or may it have) its parent?
  parents : Chain               -- the declaring scope and its parents (shared by all invocations)

/-- the chain `SetValue` on the fresh scope sees -/
def SetupState.chain (st : SetupState) : Chain := if st.linked then st.own :: st.parents else [st.own]

/-- one set-up call; `val n` = the value stored under name `n` -/
def interpOp (val : String → Nat) (st : SetupState) (op : String × String) : SetupState :=
  if op.1 = "NewScope" then { st with own := Storage.empty, linked := false }
  else if op.1 = "NewScopeWithParent" || op.1 = "NewChild" then { st with own := Storage.empty, linked := true }
  else if op.1 = "SetParentOfScope" then { st with linked := true }
  else if op.1 = "SetLocalValue" then { st with own := st.own.put op.2 (val op.2) }
  else if op.1 = "SetValue" then
    match setValue st.chain op.2 (val op.2) with
    | o :: ps => if st.linked then { st with own := o, parents := ps } else { st with own := o }
    | [] => st
  else st

def interp (val : String → Nat) (st : SetupState) (setup : List (String × String)) : SetupState :=
  setup.foldl (interpOp val) st

theorem put_has (s : Storage) (n : String) (v : Nat) : (s.put n v).has n = true := by
  simp [Storage.put, Storage.has]

theorem put_get (s : Storage) (n : String) (v : Nat) : (s.put n v).get n = some v := by
  simp [Storage.put, Storage.get]

theorem put_other (s : Storage) (n m : String) (v : Nat) (h : m ≠ n) : (s.put n v) m = s m := by
  simp [Storage.put, h]

/-- **Main lemma.** If the syntactic check accepts the sequence from the flag `st.linked`, then
    interpreting it leaves the parent chain exactly as it was — whatever the parents contain. -/
theorem storesLocal_parents_unchanged (val : String → Nat) (setup : List (String × String)) :
    ∀ st : SetupState, storesLocal st.linked setup = true → (interp val st setup).parents = st.parents := by
  induction setup with
  | nil => intro st _; rfl
  | cons op rest ih =>
    intro st h
    obtain ⟨o, a⟩ := op
    simp only [interp, List.foldl_cons]
    have key : ∀ st' : SetupState, st'.parents = st.parents → storesLocal st'.linked rest = true →
        (rest.foldl (interpOp val) st').parents = st.parents := by
      intro st' hp hs
      have := ih st' hs
      simp only [interp] at this
      rw [this, hp]
    unfold storesLocal at h
    by_cases h1 : o = "NewScope"
    · simp only [h1, if_true] at h
      apply key
      · simp [interpOp, h1]
      · simpa [interpOp, h1] using h
    · simp only [h1, if_false] at h
      by_cases h2 : (o = "NewScopeWithParent" || o = "NewChild" || o = "SetParentOfScope") = true
      · simp only [h2, if_true] at h
        apply key
        · simp only [interpOp, h1, if_false]
          split
          · rfl
          · split
            · rfl
            · simp only [Bool.or_eq_true, decide_eq_true_eq] at h2
              rename_i h3 h4
              simp only [Bool.or_eq_true, decide_eq_true_eq, not_or] at h3
              rcases h2 with (h2 | h2) | h2
              · exact absurd h2 h3.1
              · exact absurd h2 h3.2
              · exact absurd h2 h4
        · simp only [interpOp, h1, if_false]
          split
          · exact h
          · split
            · exact h
            · simp only [Bool.or_eq_true, decide_eq_true_eq] at h2
              rename_i h3 h4
              simp only [Bool.or_eq_true, decide_eq_true_eq, not_or] at h3
              rcases h2 with (h2 | h2) | h2
              · exact absurd h2 h3.1
              · exact absurd h2 h3.2
              · exact absurd h2 h4
      · simp only [h2, Bool.false_eq_true, if_false] at h
        simp only [Bool.or_eq_true, decide_eq_true_eq, not_or] at h2
        obtain ⟨⟨h2a, h2b⟩, h2c⟩ := h2
        by_cases h3 : o = "SetValue"
        · simp only [h3, if_true, Bool.and_eq_true, Bool.not_eq_true'] at h
          obtain ⟨hl, hr⟩ := h
          apply key
          · simp only [interpOp, h3]
            simp [SetupState.chain, hl, setValue]
          · simp only [interpOp, h3]
            simpa [SetupState.chain, hl, setValue] using hr
        · simp only [h3, if_false] at h
          apply key
          · simp only [interpOp, h1, h2c, h3, if_false]
            split
            · rfl
            · split <;> rfl
          · simp only [interpOp, h1, h2c, h3, if_false]
            split
            · rename_i hc
              simp [h2a, h2b] at hc
            · split <;> first | exact h | simpa using h

/-- one accepted op: parents unchanged, and the rest is accepted from the new flag -/
theorem storesLocal_step (val : String → Nat) (op : String × String) (rest : List (String × String))
    (st : SetupState) (h : storesLocal st.linked (op :: rest) = true) :
    (interpOp val st op).parents = st.parents ∧ storesLocal (interpOp val st op).linked rest = true := by
  have h1 := storesLocal_parents_unchanged val [op] st (by
    obtain ⟨o, a⟩ := op
    unfold storesLocal at h ⊢
    by_cases c1 : o = "NewScope"
    · simp [c1, storesLocal]
    · by_cases c2 : (o = "NewScopeWithParent" || o = "NewChild" || o = "SetParentOfScope") = true
      · simp [c1, c2, storesLocal]
      · by_cases c3 : o = "SetValue"
        · subst c3
          have hl : st.linked = false := by
            simp only [storesLocal] at h
            revert h
            cases st.linked <;> simp
          simp [storesLocal, hl]
        · simp [c1, c2, c3, storesLocal])
  refine ⟨by simpa [interp] using h1, ?_⟩
  obtain ⟨o, a⟩ := op
  unfold storesLocal at h
  by_cases c1 : o = "NewScope"
  · simpa [interpOp, c1] using h
  · by_cases c2 : (o = "NewScopeWithParent" || o = "NewChild" || o = "SetParentOfScope") = true
    · simp only [c1, c2, if_true, if_false] at h
      simp only [Bool.or_eq_true, decide_eq_true_eq] at c2
      rcases c2 with (c2 | c2) | c2 <;> simpa [interpOp, c1, c2] using h
    · simp only [c1, c2, if_false, Bool.false_eq_true] at h
      simp only [Bool.or_eq_true, decide_eq_true_eq, not_or] at c2
      obtain ⟨⟨c2a, c2b⟩, c2c⟩ := c2
      by_cases c3 : o = "SetValue"
      · simp only [c3, if_true, Bool.and_eq_true, Bool.not_eq_true'] at h
        simpa [interpOp, c3, SetupState.chain, h.1, setValue] using h.2
      · simp only [c3, if_false] at h
        by_cases c4 : o = "SetLocalValue"
        · simpa [interpOp, c1, c2a, c2b, c2c, c3, c4] using h
        · simpa [interpOp, c1, c2a, c2b, c2c, c3, c4] using h

/-- the names the fresh scope holds after a set-up sequence: those stored since its last constructor -/
def namesAfter : List String → List (String × String) → List String
  | acc, [] => acc
  | acc, (op, a) :: rest =>
    if op = "NewScope" || op = "NewScopeWithParent" || op = "NewChild" then namesAfter [] rest
    else if op = "SetValue" || op = "SetLocalValue" then namesAfter (a :: acc) rest
    else namesAfter acc rest

/-- every name stored since the last constructor is in the fresh scope, with its own value -/
theorem own_has_names (val : String → Nat) (setup : List (String × String)) :
    ∀ (st : SetupState) (acc : List String), (∀ n ∈ acc, st.own.get n = some (val n)) →
      storesLocal st.linked setup = true →
      ∀ n ∈ namesAfter acc setup, (interp val st setup).own.get n = some (val n) := by
  induction setup with
  | nil => intro st acc ha _ n hn; exact ha n hn
  | cons op rest ih =>
    intro st acc ha hs n hn
    obtain ⟨hp, hr⟩ := storesLocal_step val op rest st hs
    obtain ⟨o, a⟩ := op
    simp only [interp, List.foldl_cons]
    have := ih (interpOp val st (o, a))
    simp only [interp] at this
    unfold namesAfter at hn
    unfold storesLocal at hs
    by_cases c1 : (o = "NewScope" || o = "NewScopeWithParent" || o = "NewChild") = true
    · simp only [c1, if_true] at hn
      exact this [] (by intro n hn; simp at hn) hr n hn
    · simp only [c1, Bool.false_eq_true, if_false] at hn
      simp only [Bool.or_eq_true, decide_eq_true_eq, not_or] at c1
      obtain ⟨⟨c1a, c1b⟩, c1c⟩ := c1
      by_cases c2 : (o = "SetValue" || o = "SetLocalValue") = true
      · simp only [c2, if_true] at hn
        refine this (a :: acc) ?_ hr n hn
        intro m hm
        simp only [Bool.or_eq_true, decide_eq_true_eq] at c2
        have hown : (interpOp val st (o, a)).own = st.own.put a (val a) := by
          rcases c2 with c2 | c2
          · have hl : st.linked = false := by
              simp only [c1a, c1b, c1c, c2, if_true, if_false, Bool.or_self, Bool.false_eq_true,
                Bool.and_eq_true, Bool.not_eq_true'] at hs
              by_cases hsp : (o = "SetParentOfScope") <;> simp_all
            simp [interpOp, c2, SetupState.chain, hl, setValue]
          · simp [interpOp, c2]
        rw [hown]
        by_cases hma : m = a
        · subst hma; exact put_get _ _ _
        · have : m ∈ acc := by simpa [hma] using hm
          simp only [Storage.get, put_other _ _ _ _ hma]
          exact ha m this
      · simp only [c2, Bool.false_eq_true, if_false] at hn
        simp only [Bool.or_eq_true, decide_eq_true_eq, not_or] at c2
        refine this acc ?_ hr n hn
        intro m hm
        have hown : (interpOp val st (o, a)).own = st.own := by
          by_cases hsp : o = "SetParentOfScope"
          · simp [interpOp, hsp]
          · simp [interpOp, c1a, c1b, c1c, c2.1, c2.2, hsp]
        rw [hown]; exact ha m hm

theorem getValue_own (own : Storage) (ps : Chain) (n : String) (v : Nat) (h : own.get n = some v) :
    getValue (own :: ps) n = some v := by
  simp [getValue, Storage.has, Storage.get] at h ⊢
  simp [h]

/-! ## Concurrent invocations setting up their scopes over one shared declaring scope -/

structure ULoc where
  own    : Storage := Storage.empty
  linked : Bool := true
  rest   : List (String × String)        -- set-up calls still to execute
  val    : String → Nat                   -- the values this invocation stores (its event, its arguments)
  probe  : String                         -- the name the statements read afterwards
  reads  : List (Option Nat) := []        -- what they read

/-- one step of an invocation: the next set-up call on (own scope, shared parents); after the
    set-up the statements read `probe` through the scope chain -/
def setupStep (g : Unit → Chain) (l : ULoc) : (Unit → Chain) × ULoc :=
  match l.rest with
  | op :: r =>
    let st := interpOp l.val ⟨l.own, l.linked, g ()⟩ op
    (fun _ => st.parents, { l with own := st.own, linked := st.linked, rest := r })
  | [] =>
    (g, { l with reads := getValue (SetupState.chain ⟨l.own, l.linked, g ()⟩) l.probe :: l.reads })

def setupSys : Sys Unit Chain ULoc := ⟨fun _ => setupStep⟩

/-- invariant of an invocation: what is left of its set-up is accepted from its current flag -/
def ULoc.ok (l : ULoc) : Prop := storesLocal l.linked l.rest = true

theorem setupSys_inv (t : Nat) (g : Unit → Chain) (l : ULoc) (h : l.ok) : ((setupSys.step t g l).2).ok := by
  simp only [setupSys, setupStep]
  cases hr : l.rest with
  | nil => simpa [ULoc.ok, hr] using h
  | cons op r =>
    have := (storesLocal_step l.val op r ⟨l.own, l.linked, g ()⟩ (by simpa [ULoc.ok, hr] using h)).2
    simpa [ULoc.ok] using this

theorem setupSys_readonly (t : Nat) (g : Unit → Chain) (l : ULoc) (x : Unit) (h : l.ok) :
    (setupSys.step t g l).1 x = g x := by
  simp only [setupSys, setupStep]
  cases hr : l.rest with
  | nil => rfl
  | cons op r =>
    have := (storesLocal_step l.val op r ⟨l.own, l.linked, g ()⟩ (by simpa [ULoc.ok, hr] using h)).1
    simpa using this

/-- running alone: the set-up phase is `interp` -/
theorem alone_setup (t k : Nat) : ∀ (rest : List (String × String)) (g : Unit → Chain) (l : ULoc),
    l.rest = rest → l.ok →
    ∃ l', alone setupSys t (rest.length + k) g l = alone setupSys t k g l' ∧ l'.rest = [] ∧
      l'.own = (interp l.val ⟨l.own, l.linked, g ()⟩ rest).own ∧ l'.probe = l.probe ∧ l'.reads = l.reads ∧ l'.ok := by
  intro rest
  induction rest with
  | nil => intro g l hr hk; exact ⟨l, by simp, hr, by simp [interp], rfl, rfl, hk⟩
  | cons op r ih =>
    intro g l hr hk
    have hstep := storesLocal_step l.val op r ⟨l.own, l.linked, g ()⟩ (by simpa [ULoc.ok, hr] using hk)
    have e : (r.length + 1 + k) = (r.length + k) + 1 := by omega
    simp only [List.length_cons, e, alone]
    have hg : (setupSys.step t g l).1 = g := funext fun x => setupSys_readonly t g l x hk
    have hl : (setupSys.step t g l).2 =
        { l with own := (interpOp l.val ⟨l.own, l.linked, g ()⟩ op).own,
                 linked := (interpOp l.val ⟨l.own, l.linked, g ()⟩ op).linked, rest := r } := by
      simp [setupSys, setupStep, hr]
    rw [hg, hl]
    obtain ⟨l', h1, h2, h3, h4, h5, h6⟩ := ih g
      { l with own := (interpOp l.val ⟨l.own, l.linked, g ()⟩ op).own,
               linked := (interpOp l.val ⟨l.own, l.linked, g ()⟩ op).linked, rest := r } rfl
      (by simpa [ULoc.ok] using hstep.2)
    refine ⟨l', h1, h2, ?_, h4, h5, h6⟩
    rw [h3]
    simp only [interp, List.foldl_cons]
    have hp : (interpOp l.val ⟨l.own, l.linked, g ()⟩ op).parents = g () := hstep.1
    congr 2
    cases hst : interpOp l.val ⟨l.own, l.linked, g ()⟩ op with
    | mk o li ps => simp [hst] at hp ⊢; exact hp.symm

/-- running alone after the set-up: every read of a name held by the own scope returns the own value -/
theorem alone_reads (t : Nat) (g : Unit → Chain) (v : Nat) : ∀ (k : Nat) (l : ULoc),
    l.rest = [] → l.own.get l.probe = some v →
    (alone setupSys t k g l).1 = g ∧
    (alone setupSys t k g l).2.reads = List.replicate k (some v) ++ l.reads := by
  intro k
  induction k with
  | zero => intro l _ _; simp [alone]
  | succ k ih =>
    intro l hr hv
    simp only [alone]
    have hs : setupSys.step t g l = (g, { l with reads := some v :: l.reads }) := by
      simp only [setupSys, setupStep, hr]
      congr 2
      unfold SetupState.chain
      split
      · exact congrArg (· :: l.reads) (getValue_own _ _ _ _ hv)
      · exact congrArg (· :: l.reads) (getValue_own _ _ _ _ hv)
    rw [hs]
    obtain ⟨h1, h2⟩ := ih { l with reads := some v :: l.reads } hr hv
    refine ⟨h1, ?_⟩
    rw [h2]
    simp [List.replicate_succ']

end Ecal.Scope
