/-!
# Model of Go's Unix `path/filepath` (`Clean`, `Join`, `Rel`) and of
# `util/import.go` (`isSubpath`, `FileImportLocator.Resolve`)

Strings are byte lists (`List Nat`, any values — Go strings are arbitrary bytes).
The functions convert a string to its *elements* (the pieces between `/`),
work on element lists the way Go's byte loops do element by element, and convert
back:

* `Clean` (internal/filepathlite/path.go): one pass over the elements (the byte loop itself is
  `cleanBytes` further down, proved equal); the
  output buffer is represented by `CState`: `k` = number of `..` elements below
  Go's `dotdot` index (the part that must not be backtracked), `names` = the
  elements written above it. Empty and `.` elements are dropped, `..` removes
  the last name if there is one (`out.w > dotdot`), is dropped at the root, is
  appended (and `dotdot` advanced) otherwise.
* `Join` (path_unix.go `join`): leading empty arguments are ignored, the rest is
  joined with `/` and cleaned; all-empty gives `""`.
* `Rel`: both sides cleaned; equal → `.`; base `.` becomes empty; one side
  slashed and the other not → error; element-wise walk over the common prefix;
  differing base element `..` → error; remaining base elements → that many `..`
  followed by the rest of the target (the target `.` is *not* rewritten to empty
  by Go, so `Rel("a", ".") = "../."`).
* `isSubpath`, `Resolve`: exactly as composed in `util/import.go`.

`MemoryImportLocator.Resolve` is a map lookup on the unmodified path string and touches no
file; it is not modelled. `importRuntime.Eval` hands `fmt.Sprint` of the evaluated path
expression to the locator unchanged (the harness runs that route as well).
-/
namespace Ecal.Path

abbrev Str := List Nat
abbrev Seg := List Nat

/-- `.` -/
def dot : Seg := [46]
/-- `..` -/
def dotdot : Seg := [46, 46]

/-- split at every `/` (47): the first element and the remaining ones -/
def split : Str → Seg × List Seg
  | [] => ([], [])
  | c :: cs =>
    if c = 47 then ([], (split cs).1 :: (split cs).2) else (c :: (split cs).1, (split cs).2)

/-- all elements of a string (always at least one; `""` has the single element `""`) -/
def elems (s : Str) : List Seg := (split s).1 :: (split s).2

/-- `strings.Join(_, "/")` -/
def joinSep : List Seg → Str
  | [] => []
  | [s] => s
  | s :: t :: r => s ++ 47 :: joinSep (t :: r)

/-- Go: `rooted := path[0] == '/'` (false for the empty string) -/
def isRooted : Str → Bool
  | 47 :: _ => true
  | _ => false

/-- the output buffer of `Clean` -/
structure CState where
  /-- number of leading `..` elements (everything below Go's `dotdot` index) -/
  k : Nat
  /-- elements written above `dotdot`, last written first -/
  names : List Seg
deriving DecidableEq, Repr

/-- one iteration of `Clean`'s loop, on one element -/
def cleanStep (rooted : Bool) (st : CState) (e : Seg) : CState :=
  if e = [] then st
  else if e = dot then st
  else if e = dotdot then
    match st.names with
    | _ :: rest => { st with names := rest }          -- out.w > dotdot: backtrack
    | [] => if rooted then st else { st with k := st.k + 1 }   -- append "..", dotdot = out.w
  else { st with names := e :: st.names }

def CState.toSegs (st : CState) : List Seg := List.replicate st.k dotdot ++ st.names.reverse

/-- a cleaned path: rootedness and its elements (no empty / `.` elements, `..` only in front) -/
structure CPath where
  rooted : Bool
  segs : List Seg
deriving DecidableEq, Repr

def cleanFold (rooted : Bool) (es : List Seg) : CState := es.foldl (cleanStep rooted) ⟨0, []⟩

/-- `Clean` up to rendering -/
def cleanP (s : Str) : CPath := ⟨isRooted s, (cleanFold (isRooted s) (elems s)).toSegs⟩

/-- the string of a cleaned path: `/a/b`, `/`, `a/b`, `../a`, `.` -/
def CPath.render (c : CPath) : Str :=
  if c.rooted then 47 :: joinSep c.segs
  else match c.segs with
    | [] => dot
    | s :: r => joinSep (s :: r)

/-- `filepath.Clean` -/
def cleanStr (s : Str) : Str := (cleanP s).render

/-- `filepath.Join(a, b)` -/
def joinStr (a b : Str) : Str :=
  if a ≠ [] then cleanStr (a ++ 47 :: b)
  else if b ≠ [] then cleanStr b
  else []

/-- the element-wise walk of `Rel`: drop the common leading elements -/
def stripCommon : List Seg → List Seg → List Seg × List Seg
  | b :: bs, t :: ts => if b = t then stripCommon bs ts else (b :: bs, t :: ts)
  | bs, ts => (bs, ts)

/-- the elements `Rel`'s walk sees in the target: Go rewrites only the base `.` to the empty
    string, the target `.` keeps its one element `.` -/
def targElems (ct : CPath) : List Seg :=
  if ct.rooted = false ∧ ct.segs = [] then [dot] else ct.segs

/-- `Rel` on cleaned paths; `none` = Go's error "Rel: can't make … relative to …" -/
def relSegs (cb ct : CPath) : Option (List Seg) :=
  if cb = ct then some [dot]
  else if cb.rooted ≠ ct.rooted then none
  else
    match stripCommon cb.segs (targElems ct) with
    | ([], t') => some t'
    | (b :: bs, t') =>
      if b = dotdot then none else some (List.replicate (bs.length + 1) dotdot ++ t')

/-- `filepath.Rel(base, targ)` -/
def relStr (base targ : Str) : Option Str := (relSegs (cleanP base) (cleanP targ)).map joinSep

/-- `strings.HasPrefix(rel, "../")` -/
def hasUpPrefix (rel : Str) : Bool := rel.take 3 == [46, 46, 47]

/-- `isSubpath(root, sub)`: `(ok, err == nil)` -/
def isSubpath (root sub : Str) : Bool × Bool :=
  match relStr root sub with
  | none => (false, false)
  | some rel => (!hasUpPrefix rel && rel != dotdot, true)

/-- what `Resolve` does with the file system -/
inductive Outcome where
  /-- `ioutil.ReadFile(q)` is called (its result — content or error — is returned) -/
  | opened (q : Str)
  /-- error "Import path is outside of code root"; no file is touched -/
  | rejected
  /-- the error of `filepath.Rel` is returned; no file is touched -/
  | relError
deriving DecidableEq, Repr

/-- `FileImportLocator{Root: root}.Resolve(p)` -/
def resolve (root p : Str) : Outcome :=
  let importPath := cleanStr (joinStr root p)
  match isSubpath root importPath with
  | (_, false) => .relError
  | (false, true) => .rejected
  | (true, true) => .opened importPath

/-! ## The same functions byte by byte, the way Go's loops run

`cleanBytes` follows the loop of `Clean` in internal/filepathlite/path.go index by index: `rest` is
`path[r:]`, `rev` the written part `out.buf[0:w]` of the lazybuf (last byte first), `dd` the
`dotdot` index; `..` backtracks byte by byte to the last separator (`backtrack`). `relBytes`
follows `Rel` in path/filepath/path.go: the index walk `b0/bi/t0/ti` over the two cleaned strings
(`relWalk`), `bytealg.CountString` of the separators left in the base, the assembly of the result.
`resolveBytes` composes them exactly as util/import.go does. Unix only: no volume names,
`sameWord` is equality, `IsPathSeparator(c)` is `c == '/'`. The loops are fuel-indexed with fuel
that is never exhausted (length of the input + 1).
Lemmas/PathBytes.lean proves `cleanBytes = cleanStr`, `relBytes = relStr`, `resolveBytes = resolve`:
the element-list functions above are not an abstraction to be trusted but a proved description
of the byte loops. -/

/-- `out.w--; for out.w > dotdot && !IsPathSeparator(out.index(out.w)) { out.w-- }` on the reversed
    buffer: `c` is the byte at index `w`, the list the bytes below it (last first) -/
def backtrackLoop (dd : Nat) (c : Nat) : List Nat → List Nat
  | [] => []
  | c' :: rest => if (c' :: rest).length > dd ∧ c ≠ 47 then backtrackLoop dd c' rest else c' :: rest

def backtrack (dd : Nat) : List Nat → List Nat
  | [] => []
  | c :: rest => backtrackLoop dd c rest

/-- the bytes of the element starting here, and what follows it -/
def takeElem : List Nat → List Nat × List Nat
  | [] => ([], [])
  | c :: cs => if c = 47 then ([], c :: cs) else ((takeElem cs).1.cons c, (takeElem cs).2)

/-- the loop of `Clean`: `rest` = `path[r:]`, `rev` = `out.buf[0:w]` reversed, `dd` = `dotdot` -/
def cleanLoop (rooted : Bool) : Nat → List Nat → List Nat → Nat → List Nat
  | 0, _, rev, _ => rev
  | fuel + 1, rest, rev, dd =>
    match rest with
    | [] => rev
    | c :: t =>
      if c = 47 then cleanLoop rooted fuel t rev dd
      else if c = 46 ∧ (t = [] ∨ t.head? = some 47) then cleanLoop rooted fuel t rev dd
      else if c = 46 ∧ t.head? = some 46 ∧ (t.tail = [] ∨ t.tail.head? = some 47) then
        if rev.length > dd then cleanLoop rooted fuel t.tail (backtrack dd rev) dd
        else if !rooted then
          let rev' := 46 :: 46 :: (if rev.length > 0 then 47 :: rev else rev)
          cleanLoop rooted fuel t.tail rev' rev'.length
        else cleanLoop rooted fuel t.tail rev dd
      else
        let rev' := if (rooted && rev.length != 1) || (!rooted && rev.length != 0) then 47 :: rev else rev
        let e := takeElem (c :: t)
        cleanLoop rooted fuel e.2 (e.1.reverse ++ rev') dd

/-- `filepath.Clean`, byte by byte -/
def cleanBytes (path : Str) : Str :=
  if path = [] then dot
  else
    let rooted := isRooted path
    let out := if rooted then cleanLoop true (path.length + 1) (path.drop 1) [47] 1
               else cleanLoop false (path.length + 1) path [] 0
    if out = [] then dot else out.reverse


/-- the element-wise walk of `Rel` on the byte strings: `b` = `base[b0:]`, `t` = `targ[t0:]`; result at the
    break: `base[b0:]`, the base element `base[b0:bi]`, `targ[t0:]` -/
def relWalk : Nat → List Nat → List Nat → List Nat × List Nat × List Nat
  | 0, b, t => (b, (takeElem b).1, t)
  | fuel + 1, b, t =>
    if (takeElem t).1 ≠ (takeElem b).1 then (b, (takeElem b).1, t)
    else relWalk fuel ((takeElem b).2.drop 1) ((takeElem t).2.drop 1)   -- `if bi < bl { bi++ }`, same for ti

/-- `filepath.Rel`, byte by byte (Unix: no volume names, `sameWord` is equality) -/
def relBytes (basepath targpath : Str) : Option Str :=
  let base := cleanBytes basepath
  let targ := cleanBytes targpath
  if targ = base then some dot
  else
    let base := if base = dot then [] else base
    if (base.head? == some 47) != (targ.head? == some 47) then none
    else
      let w := relWalk (base.length + targ.length + 1) base targ
      if w.2.1 = dotdot then none
      else if w.1 ≠ [] then
        some (dotdot ++ (List.replicate (w.1.count 47) [47, 46, 46]).flatten ++ (if w.2.2 ≠ [] then 47 :: w.2.2 else []))
      else some w.2.2


/-- `filepath.Join(a, b)` with the byte-level `Clean` -/
def joinBytes (a b : Str) : Str :=
  if a ≠ [] then cleanBytes (a ++ 47 :: b)
  else if b ≠ [] then cleanBytes b
  else []

/-- `isSubpath(root, sub)` over the byte-level `Rel` -/
def isSubpathBytes (root sub : Str) : Bool × Bool :=
  match relBytes root sub with
  | none => (false, false)
  | some rel => (!hasUpPrefix rel && rel != dotdot, true)

/-- `FileImportLocator{Root: root}.Resolve(p)` over the byte-level functions -/
def resolveBytes (root p : Str) : Outcome :=
  let importPath := cleanBytes (joinBytes root p)
  match isSubpathBytes root importPath with
  | (_, false) => .relError
  | (false, true) => .rejected
  | (true, true) => .opened importPath

/-! ## Lexical meaning of a path: walking it in the free directory tree

A *position* is the list of names from the file-system root down to a node. Every
directory tree without symbolic links is a sub-tree of the free tree of all
positions, and the kernel's path walk in it follows `walkStep` (or fails). -/

abbrev Pos := List Seg

/-- one element of a path walk: empty and `.` stay, `..` goes to the parent (the root is its
    own parent), a name descends -/
def walkStep (pos : Pos) (e : Seg) : Pos :=
  if e = [] then pos else if e = dot then pos else if e = dotdot then pos.dropLast else pos ++ [e]

/-- where the walk starts -/
def startPos (cwd : Pos) (rooted : Bool) : Pos := if rooted then [] else cwd

/-- the node a string denotes for a process with working directory `cwd` -/
def walkStr (cwd : Pos) (s : Str) : Pos := (elems s).foldl walkStep (startPos cwd (isRooted s))

/-- the node a cleaned path denotes -/
def walkP (cwd : Pos) (c : CPath) : Pos := c.segs.foldl walkStep (startPos cwd c.rooted)

/-- all nodes visited walking the elements `es` from `pos` (including `pos`) -/
def visited (pos : Pos) : List Seg → List Pos
  | [] => [pos]
  | e :: es => pos :: visited (walkStep pos e) es

/-! ## The import statement (`importRuntime.Eval`) and the command line tool

`importRuntime.Eval` evaluates the path expression, calls `Resolve` on a locator with a path string,
parses the returned text under the import path as source name and evaluates it — which may execute
further import statements. WHICH locator and WHICH string is a fact about rt_general.go that is
regenerated from the tree under test on every run (`Ecal.Gen.C17.importFacts`); the model is
parameterised by it: where a fact does not hold, an adversary chooses (it sees the configured root,
the source name `rt.node.Token.Lsource` of the importing program and the path value).
`CLIInterpreter.CreateRuntimeProvider` builds the locator from the configured directory; whether
its `Root` is that value itself is again a regenerated fact (`Ecal.Gen.C17.toolRootIsDir`).

Go recurses without bound on cyclic imports (the process dies of stack exhaustion); the model's
`fuel` turns that into "error, nothing further opened". The confinement theorems hold for every
fuel; the harness's module files contain no cycle. -/

/-- what a file contains, as far as imports are concerned -/
inductive FileContent where
  /-- a leaf module (the harness's sentinel number `id`) -/
  | sentinel (id : Nat)
  /-- a module whose import statement names the path `inner` (and re-exports what it gets) -/
  | imports (inner : Str)
deriving Repr

/-- the file system as `ReadFile` sees it: the content for a path string, `none` = error -/
abbrev FS := Str → Option FileContent

/-- facts about `importRuntime.Eval` (regenerated from rt_general.go) -/
structure ImportFacts where
  /-- the receiver of the `Resolve` call is the provider's configured locator `rt.erp.ImportLocator` -/
  receiverIsConfiguredLocator : Bool
  /-- its argument is `fmt.Sprint` of the value of the path expression (child 0) and nothing else -/
  argumentIsPathValue : Bool

/-- the import statement `import <p>` in a program parsed under the source name `src`, in a provider
    whose locator is configured with `root`: the sentinel finally reached (`none` = error) and every
    string handed to `ReadFile` on the way. `adv root src p = (root', p')` is what an implementation for
    which a fact does not hold may use instead. -/
def importEval (F : ImportFacts) (adv : Str → Str → Str → Str × Str) (fs : FS) (root : Str) :
    Nat → (src : Str) → (p : Str) → Option Nat × List Str
  | 0, _, _ => (none, [])
  | fuel + 1, src, p =>
    let root' := if F.receiverIsConfiguredLocator then root else (adv root src p).1
    let p' := if F.argumentIsPathValue then p else (adv root src p).2
    match resolve root' p' with
    | .opened q =>
      match fs q with
      | none => (none, [q])
      | some (.sentinel n) => (some n, [q])
      | some (.imports inner) =>
        -- the imported text is parsed under the name `p`; its import statement runs with that name
        let r := importEval F adv fs root fuel p inner
        (r.1, q :: r.2)
    | _ => (none, [])

/-- `CreateRuntimeProvider`: the locator's root for the configured directory string `dir`;
    `adv` = what an implementation whose Root is not the configured value itself may compute -/
def toolRoot (rootIsDir : Bool) (adv : Str → Str) (dir : Str) : Str := if rootIsDir then dir else adv dir

/-! ## Specification -/

/-- `q` lies lexically inside `root`: same rootedness, the cleaned root's elements are a prefix
    of the cleaned `q`'s, and what follows contains no `..` -/
def inside (root q : Str) : Prop :=
  (cleanP root).rooted = (cleanP q).rooted ∧
    ∃ r, (cleanP q).segs = (cleanP root).segs ++ r ∧ dotdot ∉ r ∧ dot ∉ r ∧ [] ∉ r

/-- `inside` as a function (what the driver evaluates on a string the real code opened) -/
def insideB (root q : Str) : Bool :=
  (cleanP root).rooted == (cleanP q).rooted &&
    (cleanP q).segs.take (cleanP root).segs.length == (cleanP root).segs &&
    ((cleanP q).segs.drop (cleanP root).segs.length).all (fun s => s != dotdot && s != dot && s != [])

end Ecal.Path
