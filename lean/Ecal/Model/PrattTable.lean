import Ecal.Gen.C08
import Ecal.Model.PrattPrint
import Ecal.Model.Printer
/-!
The expression-level model of C08 instantiated with the operator table of the REAL parser
(`Ecal.Gen.C08.astNodeMap`, regenerated from parser.go on every run), and the bridge between
operator trees (`Ecal.C08.Expr`) and the nodes of the full printer model (`Ecal.Parse.Node`).
Core Lean only (linked into the driver).
-/
namespace Ecal.C08
open Ecal.Gen.C08

/-- infix operators: entries of astNodeMap with the left denotation `ldInfix` — (node name, binding) -/
def infixOps : List (String × Nat) :=
  (astNodeMap.filter fun e => e.2.2.2.2 = "ldInfix").map fun e => (e.2.1, e.2.2.1)

/-- keywords that ppIsOperator regards as prefix operators although they have no left denotation -/
def prefixKeywords : List String := ["not", "let", "kindmatch", "scopematch", "statematch", "priority", "suppresses"]

/-- prefix operators as the printer sees them (ppIsOperator): null denotation `ndPrefix` and either an
    operator token (binding > 0 and a left denotation: + -) or one of the keywords; plus `return` (with a
    value; null denotation `ndReturn`), which ppNeedsBrackets treats specially —
    (node name, binding, has left denotation) -/
def prefixOps : List (String × Nat × Bool) :=
  (astNodeMap.filter fun e => (e.2.2.2.1 = "ndPrefix" &&
      ((decide (e.2.2.1 > 0) && e.2.2.2.2 != "nil") || prefixKeywords.contains e.2.1)) ||
      (e.2.2.2.1 = "ndReturn" && e.2.1 = "return")).map
    fun e => (e.2.1, e.2.2.1, e.2.2.2.2 != "nil")

def infixIdx (name : String) : Option Nat :=
  let i := infixOps.findIdx (·.1 = name)
  if i < infixOps.length then some i else none
def prefixIdx (name : String) : Option Nat :=
  let i := prefixOps.findIdx (·.1 = name)
  if i < prefixOps.length then some i else none

def iReturn : Nat := prefixOps.findIdx (·.1 = "return")
def iTimes : Nat := infixOps.findIdx (·.1 = "times")
def iDiv : Nat := infixOps.findIdx (·.1 = "div")

/-- binding powers of the real table (1 outside the table) -/
def realPowers : Powers where
  bp k := ((infixOps[k]?).map (·.2)).getD 1
  pb k := ((prefixOps[k]?).map (·.2.1)).getD 1
  off := prefixOffset
  stmt k := ((prefixOps[k]?).map (·.1)).getD "" = "return"

/-- the exception of ppNeedsBrackets: a product or quotient under a product is never parenthesised -/
def realExc (K k : Nat) : Bool := decide (K = iTimes) && (decide (k = iTimes) || decide (k = iDiv))

/-- what ppNeedsBrackets reads of a node, for an operator head of the real table; `pure` = the value of the
    sub-tree predicate ppIsProductChain for that node -/
def bnOf (h : Head) (pure : Bool := true) : BN :=
  match h with
  | .atom => ⟨"identifier", 0, false, 0, fun _ => pure⟩
  | .bin k => ⟨((infixOps[k]?).map (·.1)).getD "", realPowers.bp k, true, 2, fun _ => pure⟩
  | .pre k => ⟨((prefixOps[k]?).map (·.1)).getD "", realPowers.pb k, ((prefixOps[k]?).map (·.2.2)).getD false, 1,
      fun _ => pure⟩

/-- the same head as a node of the full printer model; for `pure = false` an infix head gets a left operand
    `a % b` of its own binding (its product chain is then impure), otherwise its operands are absent -/
def nodeOf (h : Head) (pure : Bool := true) : Ecal.Parse.Node :=
  let b := bnOf h
  let kids : List (Option Ecal.Parse.Node) :=
    if !pure && b.nch = 2 then
      [some (Ecal.Parse.Node.mk "modint" none b.binding .none .infix [none, none] []), none]
    else List.replicate b.nch none
  Ecal.Parse.Node.mk b.name none b.binding .none (if b.hasLd then .infix else .none) kids []

/-- the bracket rule EXTRACTED from the Go source, on operator heads of the real table -/
def genBr (p c : Head) (i : Nat) (pure : Bool) : Bool := needsBrackets (bnOf p) (bnOf c pure) i

/-- the rule the driver's expression-level printer uses: the extracted one when available -/
def realBr : Head → Head → Nat → Bool → Bool := if shapeOk then genBr else nb realPowers realExc

/-- all heads of the real table -/
def allHeads : List Head :=
  Head.atom :: ((List.range infixOps.length).map Head.bin ++ (List.range prefixOps.length).map Head.pre)

/-- the head belongs to the real table -/
def inTable (h : Head) : Bool := allHeads.contains h

/-! ### bridge to the full printer model (used by the driver's cross-check) -/

open Ecal.Parse in
/-- an AST of the real parser as an operator tree: `none` unless every node is an infix/prefix operator
    of the table (with the table's binding) or a childless atom, without comments or blank lines.
    Atoms are numbered by their position in `atoms`. -/
def toExprF : Nat → Node → Array (List Nat) → Option (Expr × Array (List Nat))
  | 0, _, _ => none
  | fuel+1, n, atoms =>
  let toExpr := toExprF fuel
  let plain := n.metas.isEmpty && (match n.tok with | some t => t.prefixNl ≤ 1 | none => false)
  if !plain then none
  else match n.children with
    | [] =>
      if ["identifier", "number", "true", "false", "null"].contains n.name && n.binding = 0 then
        match Ecal.Print.visit (some n) none with
        | .ok txt => some (Expr.atom atoms.size, atoms.push txt)
        | _ => none
      else none
    | [some x] =>
      match prefixIdx n.name with
      | some k =>
        if n.binding ≠ realPowers.pb k || (n.led != .none) != (bnOf (.pre k)).hasLd then none
        else match toExpr x atoms with
          | some (ex, atoms) => some (Expr.pre k ex, atoms)
          | none => none
      | none => none
    | [some l, some r] =>
      match infixIdx n.name with
      | some k =>
        if n.binding ≠ realPowers.bp k || n.led = .none then none
        else match toExpr l atoms with
          | some (el, atoms) =>
            match toExpr r atoms with
            | some (er, atoms) => some (Expr.bin k el er, atoms)
            | none => none
          | none => none
      | none => none
    | _ => none

/-- sink attributes are indented by ppPostProcessing when their parent is not in its no-initial-indent
    list — i.e. under every operator: `-    suppresses a` -/
def sinkAttrs : List String := ["kindmatch", "scopematch", "statematch", "priority", "suppresses"]

/-- `toExprF` with a fuel far above the depth of any tree the driver sees -/
def toExpr (n : Ecal.Parse.Node) (atoms : Array (List Nat)) : Option (Expr × Array (List Nat)) := toExprF 100000 n atoms

/-- text of an operator tree with the parentheses the printer decided, with the operator spellings of the
    full printer's templates; `parent` = name of the enclosing operator (none at the root). A sink attribute
    is indented unless its parent is in ppPostProcessing's no-initial-indent list. -/
def fill (pieces : Option (List (String ⊕ Nat))) (kids : List (List Nat)) : List Nat :=
  match pieces with
  | none => Ecal.Print.s "<?>"
  | some ps => ps.flatMap fun pc => match pc with
    | .inl t => Ecal.Print.s t
    | .inr k => kids.getD (k - 1) (Ecal.Print.s "<?>")

def renderP (atoms : Array (List Nat)) : Option String → PExpr → List Nat
  | _, .atom n => atoms.getD n []
  | parent, .paren x => Ecal.Print.s "(" ++ renderP atoms parent x ++ Ecal.Print.s ")"
  | _, .bin k l r =>
    let name := ((infixOps[k]?).map (·.1)).getD ""
    fill (Ecal.Print.tmpl (name ++ "_2")) [renderP atoms (some name) l, renderP atoms (some name) r]
  | parent, .pre k x =>
    let name := ((prefixOps[k]?).map (·.1)).getD ""
    let indent := match parent with
      | some p => if sinkAttrs.contains name && !Ecal.Print.noInitialIndentParents.contains p then Ecal.Print.s "    " else []
      | none => []
    indent ++ fill (Ecal.Print.tmpl (name ++ "_1")) [renderP atoms (some name) x]

end Ecal.C08
