import Ecal.Gen.C08
import Ecal.Model.PrattPrint
import Ecal.Model.Printer
/-!
The expression-level model of C08 instantiated with the operator table of the REAL parser
(`Ecal.Gen.C08.astNodeMap`, regenerated from parser.go on every run), and the bridge between
operator trees (`Ecal.C08.Expr`) and the nodes of the full printer model (`Ecal.Parse.Node`).
Core Lean only (linked into the driver).
-/
namespace Ecal.C08
open Ecal.Gen.C08

/-- infix operators: entries of astNodeMap with the left denotation `ldInfix` — (node name, binding) -/
def infixOps : List (String × Nat) :=
  (astNodeMap.filter fun e => e.2.2.2.2 = "ldInfix").map fun e => (e.2.1, e.2.2.1)

/-- keywords that ppIsOperator regards as prefix operators although they have no left denotation -/
def prefixKeywords : List String := ["not", "let", "kindmatch", "scopematch", "statematch", "priority", "suppresses"]

/-- prefix operators as the printer sees them (ppIsOperator): null denotation `ndPrefix` and either an
    operator token (binding > 0 and a left denotation: + -) or one of the keywords —
    (node name, binding, has left denotation) -/
def prefixOps : List (String × Nat × Bool) :=
  (astNodeMap.filter fun e => e.2.2.2.1 = "ndPrefix" &&
      ((decide (e.2.2.1 > 0) && e.2.2.2.2 != "nil") || prefixKeywords.contains e.2.1)).map
    fun e => (e.2.1, e.2.2.1, e.2.2.2.2 != "nil")

def infixIdx (name : String) : Option Nat :=
  let i := infixOps.findIdx (·.1 = name)
  if i < infixOps.length then some i else none
def prefixIdx (name : String) : Option Nat :=
  let i := prefixOps.findIdx (·.1 = name)
  if i < prefixOps.length then some i else none

def iTimes : Nat := infixOps.findIdx (·.1 = "times")
def iDiv : Nat := infixOps.findIdx (·.1 = "div")

/-- binding powers of the real table (1 outside the table) -/
def realPowers : Powers where
  bp k := ((infixOps[k]?).map (·.2)).getD 1
  pb k := ((prefixOps[k]?).map (·.2.1)).getD 1
  off := prefixOffset

/-- the exception of ppNeedsBrackets: a product or quotient under a product is never parenthesised -/
def realExc (K k : Nat) : Bool := decide (K = iTimes) && (decide (k = iTimes) || decide (k = iDiv))

/-- what ppNeedsBrackets reads of a node, for an operator head of the real table -/
def bnOf : Head → BN
  | .atom => ⟨"identifier", 0, false, 0⟩
  | .bin k => ⟨((infixOps[k]?).map (·.1)).getD "", realPowers.bp k, true, 2⟩
  | .pre k => ⟨((prefixOps[k]?).map (·.1)).getD "", realPowers.pb k, ((prefixOps[k]?).map (·.2.2)).getD false, 1⟩

/-- the same head as a node of the full printer model -/
def nodeOf (h : Head) : Ecal.Parse.Node :=
  let b := bnOf h
  Ecal.Parse.Node.mk b.name none b.binding .none (if b.hasLd then .infix else .none) (List.replicate b.nch none) []

/-- all heads of the real table -/
def allHeads : List Head :=
  Head.atom :: ((List.range infixOps.length).map Head.bin ++ (List.range prefixOps.length).map Head.pre)

/-! ### bridge to the full printer model (used by the driver's cross-check) -/

open Ecal.Parse in
/-- an AST of the real parser as an operator tree: `none` unless every node is an infix/prefix operator
    of the table (with the table's binding) or a childless atom, without comments or blank lines.
    Atoms are numbered by their position in `atoms`. -/
partial def toExpr (n : Node) (atoms : Array (List Nat)) : Option (Expr × Array (List Nat)) :=
  let plain := n.metas.isEmpty && (match n.tok with | some t => t.prefixNl ≤ 1 | none => false)
  if !plain then none
  else match n.children with
    | [] =>
      if ["identifier", "number", "true", "false", "null"].contains n.name && n.binding = 0 then
        match Ecal.Print.visit (some n) none with
        | .ok txt => some (Expr.atom atoms.size, atoms.push txt)
        | _ => none
      else none
    | [some x] =>
      match prefixIdx n.name with
      | some k =>
        if n.binding ≠ realPowers.pb k || (n.led != .none) != (bnOf (.pre k)).hasLd then none
        else match toExpr x atoms with
          | some (ex, atoms) => some (Expr.pre k ex, atoms)
          | none => none
      | none => none
    | [some l, some r] =>
      match infixIdx n.name with
      | some k =>
        if n.binding ≠ realPowers.bp k || n.led = .none then none
        else match toExpr l atoms with
          | some (el, atoms) =>
            match toExpr r atoms with
            | some (er, atoms) => some (Expr.bin k el er, atoms)
            | none => none
          | none => none
      | none => none
    | _ => none

/-- text of a token list, with the operator spellings of the full printer's templates -/
def render (atoms : Array (List Nat)) (ts : List Tok) : List Nat :=
  ts.flatMap fun t =>
    match t with
    | .atom n => atoms.getD n []
    | .lp => Ecal.Print.s "("
    | .rp => Ecal.Print.s ")"
    | .op k =>
      match Ecal.Print.tmpl (((infixOps[k]?).map (·.1)).getD "" ++ "_2") with
      | some [.inr 1, .inl sym, .inr 2] => Ecal.Print.s sym
      | _ => Ecal.Print.s "<?>"
    | .pre k =>
      match Ecal.Print.tmpl (((prefixOps[k]?).map (·.1)).getD "" ++ "_1") with
      | some [.inl sym, .inr 1] => Ecal.Print.s sym
      | _ => Ecal.Print.s "<?>"

end Ecal.C08
