import Ecal.Model.Interp
/-!
# The interpolation loop as it was BEFORE the repair (commit 8e2f91b in /repo)

Kept only for the negative witnesses of C14: the same questions asked of the old loop
have the answers the property forbids. `GetInfix` searched the closing marker from the
start of the string, and the loop searched the whole working string again after every
substitution.
-/
namespace Ecal.InterpPristine
open Ecal.Interp

inductive Out where
  | ok (s : Str)
  | panic            -- Go: slice bounds out of range
  | outOfFuel
  deriving DecidableEq, Repr

/-- index of the first occurrence of the two-byte marker `m m` -/
def index2 (m : Nat) : Str → Option Nat
  | [] => none
  | [_] => none
  | a :: b :: rest => if a = m ∧ b = m then some 0 else (index2 m (b :: rest)).map (· + 1)

/-- `strings.Replace(s, old, new, 1)` -/
def replaceFirst (old new : Str) : Nat → Str → Str
  | 0, s => s
  | _ + 1, [] => []
  | f + 1, c :: rest =>
    if old.isPrefixOf (c :: rest) ∧ old ≠ [] then new ++ (c :: rest).drop old.length
    else c :: replaceFirst old new f rest

/-- old `GetInfix(str, "{{", "}}")`: `some code` / `none` (not found) / panic -/
def getInfix (s : Str) : Option (Option Str) :=
  match index2 123 s with
  | none => some none
  | some i =>
    let st := i + 2
    match index2 125 s with
    | none => some none
    | some e => if st ≤ e then some (some ((s.drop st).take (e - st))) else none   -- s[st:e] with st > e panics

def loop (ev : Str → Str) : Nat → Str → Out
  | 0, _ => Out.outOfFuel
  | fuel + 1, s =>
    match getInfix s with
    | none => Out.panic
    | some none => Out.ok s
    | some (some code) =>
      -- res != str test of the old code: an infix equal to the whole string counts as "not found"
      if code = s then Out.ok s
      else loop ev fuel (replaceFirst (123 :: 123 :: code ++ [125, 125]) (ev code) (s.length + 1) s)

end Ecal.InterpPristine
