import Ecal.Model.Lexer
/-!
Model of the debugger's command interface: `interpreter/debug_cmd.go` (every command's
`Run`, `AssertNumParam`, `DebugCommandsMap`) and the command-side methods of
`interpreter/debug.go` (`HandleInput`, `Continue`, `Describe`, `Status`, `LockState`,
`ExtractValue`, `InjectValue`, the breakpoint methods) as of the `fix:` commits listed for C16 in
known_findings.txt plus fixes/C16-inject-own-thread.patch.

* Strings are Go strings: byte lists. `fields` is `strings.Fields` (rune decoding with
  U+FFFD for invalid bytes, `unicode.IsSpace`), `split` is `strings.Split` on one byte,
  `parseInt` is `strconv.ParseInt(s, 10, 0)` = `strconv.Atoi` (sign, digits, int64 range).
* Every Go operation of this code that can panic is a primitive with a `panic` outcome:
  `idx` (index), `sliceFrom`/`sliceTo` (slice expressions), `deref` (method call /
  field access through a pointer or interface that may be nil). The debugger's
  `sync.RWMutex` is a counter; `locked` is `Lock(); defer Unlock()`; taking it while it
  is held is the outcome `deadlock`.
* Outside the model (oracles in `Env`, universally quantified in the theorems): whether
  the expression handed to `inject` parses and evaluates without error (C06/C07) and
  whether `Scope.SetValue` accepts a dotted container path (C05).
* `Guards` selects the repaired code (`repaired`) or the code before a44f74f.
-/
namespace Ecal.DebugCmd

abbrev Str := List Nat

def str (s : String) : Str := s.toList.map Char.toNat

/-! ## Go string functions -/

/-- the runes of a Go string with the bytes each one was decoded from
    (utf8.DecodeRuneInString looks at no more than four bytes) -/
def runesAux : Nat → Str → List (Nat × Str)
  | 0, _ => []
  | _, [] => []
  | fuel + 1, c :: rest =>
    let rw := Lex.decodeRune ((c :: rest).take 4).toArray 0
    (rw.1, (c :: rest).take rw.2) :: runesAux fuel ((c :: rest).drop rw.2)

def runes (s : Str) : List (Nat × Str) := runesAux s.length s

def fieldsGo : List (Nat × Str) → Str → List Str
  | [], cur => if cur.isEmpty then [] else [cur]
  | (r, bs) :: rest, cur =>
    if Lex.isSpace r then (if cur.isEmpty then fieldsGo rest [] else cur :: fieldsGo rest [])
    else fieldsGo rest (cur ++ bs)

/-- strings.Fields -/
def fields (s : Str) : List Str := fieldsGo (runes s) []

/-- strings.Split(s, sep) for a one-byte separator -/
def split (sep : Nat) : Str → List Str
  | [] => [[]]
  | c :: rest =>
    if c = sep then [] :: split sep rest
    else match split sep rest with
      | [] => [[c]]
      | h :: t => (c :: h) :: t

theorem split_length_pos (sep : Nat) (s : Str) : 0 < (split sep s).length := by
  induction s with
  | nil => simp [split]
  | cons c rest ih =>
    simp only [split]
    split
    · simp
    · split <;> simp

def isDigit (c : Nat) : Bool := 48 ≤ c && c ≤ 57

/-- strconv.ParseInt(s, 10, 0) / strconv.Atoi(s) on a 64-bit platform; `none` = error -/
def parseInt (s : Str) : Option Int :=
  match s with
  | [] => none
  | c :: rest =>
    let neg := c = 45
    let ds := if c = 43 ∨ c = 45 then rest else s
    if ds.isEmpty then none
    else if !ds.all isDigit then none
    else
      let n : Nat := ds.foldl (fun a d => a * 10 + (d - 48)) 0
      if neg then (if n > 2 ^ 63 then none else some (-(n : Int)))
      else (if n ≥ 2 ^ 63 then none else some (n : Int))

/-- AssertNumParam: ParseInt then the conversion `uint64(resNum)` (wraps negatives) -/
def assertNumParam (val : Str) : Option Nat :=
  (parseInt val).map fun r => (r % (2 ^ 64 : Int)).toNat

/-- unicode.ToLower as far as it can produce an ASCII letter (the only non-ASCII runes
    with an ASCII lower case are U+0130 and U+212A) -/
def lowerRune (r : Nat) : Nat :=
  if 65 ≤ r ∧ r ≤ 90 then r + 32 else if r = 0x130 then 105 else if r = 0x212A then 107 else r

/-- `strings.ToLower(s) == w` for an ASCII lower-case word `w` -/
def lowerIs (s : Str) (w : String) : Bool := (runes s).map (fun p => lowerRune p.1) == str w

def isAlpha (c : Nat) : Bool := (65 ≤ c && c ≤ 90) || (97 ≤ c && c ≤ 122)

/-- parser.NamePattern `^[A-Za-z][A-Za-z0-9]*$` -/
def nameOk : Str → Bool
  | [] => false
  | c :: rest => isAlpha c && rest.all fun d => isAlpha d || isDigit d

/-- fmt.Sprintf("%v:%v", source, line) -/
def bpKey (source : Str) (line : Int) : Str := source ++ 58 :: str (toString line)

/-! ## Debugger state -/

inductive ICmd where
  | stop | stepIn | stepOut | stepOver | resume | kill
  deriving DecidableEq, Repr

/-- a call-stack entry (`*parser.ASTNode`): is the pointer non-nil, is its `Token` non-nil -/
structure Frame where
  nonNil : Bool
  hasToken : Bool
  deriving DecidableEq, Repr

/-- interrogationState -/
structure Interro where
  running : Bool
  cmd : ICmd
  hasNode : Bool            -- is.node != nil
  hasVs : Bool              -- is.vs != nil
  hasErr : Bool             -- is.err != nil
  errDataJson : Bool        -- the error's Data is accepted by json.Marshal as it is (no ECAL map, no non-finite number)
  stepOutStack : Option Nat -- length of is.stepOutStack if set
  atGlobal : Bool           -- is.vs is the global scope itself
  locals : List Str         -- names visible in is.vs below the global scope
  deriving DecidableEq, Repr

structure DbgState where
  stacks : List (Nat × List Frame)   -- callStacks (and the two snapshot maps, same keys)
  istates : List (Nat × Interro)     -- interrogationStates
  breakPoints : List (Str × Bool)
  sources : List Str
  breakOnStart : Bool
  ownersSet : Bool                   -- mutexeOwners != nil
  mutexLogSet : Bool                 -- mutexLog != nil
  threadPoolSet : Bool               -- threadpool != nil
  globalScope : Bool                 -- globalScope != nil
  globals : List Str                 -- names defined in the global scope
  lock : Nat                         -- holders of ed.lock
  deriving DecidableEq, Repr

/-- NewECALDebugger(globalVS) -/
def init (globalScope : Bool) (globals : List Str) : DbgState :=
  { stacks := [], istates := [], breakPoints := [], sources := [], breakOnStart := false,
    ownersSet := false, mutexLogSet := false, threadPoolSet := false,
    globalScope := globalScope, globals := globals, lock := 0 }

def put {β : Type} (k : Nat) (v : β) (l : List (Nat × β)) : List (Nat × β) :=
  (k, v) :: l.filter fun p => p.1 != k

def del {β : Type} (k : Nat) (l : List (Nat × β)) : List (Nat × β) := l.filter fun p => p.1 != k

/-! ## Outcomes and the handler monad -/

inductive Shape where
  | null | status | describe | lockstate
  | unencodable   -- a result json.Marshal rejects
  deriving DecidableEq, Repr

inductive Reply where
  | ok (sh : Shape)
  | error
  | notJson
  | panic (site : String)
  | deadlock
  /-- the command has not returned: it is evaluating the expression handed to `inject` -/
  | evaluating
  deriving DecidableEq, Repr

inductive Res (α : Type) where
  | ok (a : α) (s : DbgState)
  | panic (site : String) (s : DbgState)
  | deadlock (s : DbgState)
  /-- the command is (still) evaluating an expression in state `s` — it never returns if the
      expression diverges; `s` is what every other command meanwhile sees -/
  | evaluating (s : DbgState)

def M (α : Type) := DbgState → Res α

instance : Monad M where
  pure a := fun s => .ok a s
  bind m f := fun s =>
    match m s with
    | .ok a s' => f a s'
    | .panic p s' => .panic p s'
    | .deadlock s' => .deadlock s'
    | .evaluating s' => .evaluating s'

def getS : M DbgState := fun s => .ok s s
def modS (f : DbgState → DbgState) : M Unit := fun s => .ok () (f s)
def panicAt {α : Type} (site : String) : M α := fun s => .panic site s

/-- nil check of a pointer / interface before a method call or field access through it -/
def deref (nonNil : Bool) (site : String) : M Unit :=
  if nonNil then pure () else panicAt site

/-- `l[i]` -/
def idx {α : Type} (l : List α) (i : Nat) (site : String) : M α :=
  match l[i]? with
  | some a => pure a
  | none => panicAt site

/-- `l[i:]` -/
def sliceFrom {α : Type} (l : List α) (i : Nat) (site : String) : M (List α) :=
  if i ≤ l.length then pure (l.drop i) else panicAt site

/-- `l[:n]` (n a Go `int`) -/
def sliceTo {α : Type} (l : List α) (n : Int) (site : String) : M (List α) :=
  if 0 ≤ n ∧ n ≤ l.length then pure (l.take n.toNat) else panicAt site

/-- `ed.lock.Lock(); defer ed.lock.Unlock()` (same for RLock/RUnlock): the deferred
    unlock also runs when the body panics -/
def locked {α : Type} (body : M α) : M α := fun s =>
  if s.lock ≠ 0 then .deadlock s
  else match body { s with lock := 1 } with
    | .ok a s' => .ok a { s' with lock := s'.lock - 1 }
    | .panic p s' => .panic p { s' with lock := s'.lock - 1 }
    | .deadlock s' => .deadlock s'
    | .evaluating s' => .evaluating s'   -- still inside: the deferred unlock has not run

/-- which of the guards added by a44f74f are present -/
structure Guards where
  lockstateNil : Bool   -- `if ed.mutexLog != nil` / `if ed.threadpool != nil` in LockState
  stepOutLen : Bool     -- `len(stack) > 0` before `stack[:len(stack)-1]` in Continue
  errDataConv : Bool    -- RuntimeErrorWithDetail.ToJSONObject converts Data into a JSON-marshalable object
  injectOutside : Bool  -- InjectValue evaluates the expression WITHOUT holding ed.lock
  deriving DecidableEq, Repr

def repaired : Guards := { lockstateNil := true, stepOutLen := true, errDataConv := true, injectOutside := true }

/-- what parsing, validating and evaluating the expression handed to `inject` does -/
inductive EvalOutcome where
  | ok | error
  /-- it calls a function declared by the debugged program: the function body reports its states
      to this debugger (VisitState takes `ed.lock.RLock`), then finishes with or without error -/
  | visits (ok : Bool)
  /-- it does not return (endless loop, long sleep, stopped at a break point as thread 999) -/
  | diverges
  deriving DecidableEq, Repr

/-- what the model does not decide itself -/
structure Env where
  /-- what the expression given to `inject` does when parsed, validated and evaluated -/
  eval : Str → EvalOutcome
  /-- `is.vs.SetValue(path, v)` succeeds for a dotted container path (thread id, path) -/
  setPathOk : Nat → Str → Bool

/-- result pair of a command's `Run`: (shape of `res`, `err != nil`) -/
abbrev Out := Shape × Bool

def okNull : Out := (.null, false)
def err : Out := (.null, true)

/-! ## debug.go: command side -/

def setBreakPoint (source : Str) (line : Int) (v : Bool) : M Unit :=
  locked (modS fun s =>
    let k := bpKey source line
    { s with breakPoints := (k, v) :: s.breakPoints.filter fun p => p.1 != k })

def removeBreakPoint (source : Str) (line : Int) : M Unit :=
  locked do
    let s ← getS
    if line > 0 then
      modS fun s => { s with breakPoints := s.breakPoints.filter fun p => p.1 != bpKey source line }
    else
      -- `strings.Split(k, ":")[0]` for every key
      deref (s.breakPoints.all fun p => decide (0 < (split 58 p.1).length))
        "RemoveBreakPoint: strings.Split(k, \":\")[0]"
      modS fun s => { s with breakPoints := s.breakPoints.filter fun p => (split 58 p.1).head? != some source }

def breakOnStart (flag : Bool) : M Unit :=
  locked (modS fun s => { s with breakOnStart := flag })

inductive ContType where
  | resume | stepIn | stepOver | stepOut
  deriving DecidableEq, Repr

def continueThread (g : Guards) (tid : Nat) (ct : ContType) : M Unit :=
  locked do
    let s ← getS
    match s.istates.lookup tid with
    | none => pure ()
    | some is =>
      if is.running then pure ()
      else
        let is' ← (match ct with
          | .resume => pure { is with cmd := .resume }
          | .stepIn => pure { is with cmd := .stepIn }
          | .stepOver => pure { is with cmd := .stepOver }
          | .stepOut => do
            let stack := (s.stacks.lookup tid).getD []   -- a missing key gives the nil slice
            if g.stepOutLen ∧ ¬ (stack.length > 0) then
              pure { is with cmd := .stepOut }
            else do
              let so ← sliceTo stack ((stack.length : Int) - 1) "Continue: stack[:len(stack)-1]"
              pure { is with cmd := .stepOut, stepOutStack := some so.length } : M Interro)
        modS fun s => { s with istates := put tid { is' with running := true } s.istates }

/-- json.Marshal accepts `is.err` (RuntimeErrorWithDetail.MarshalJSON) -/
def errEncodable (g : Guards) (is : Interro) : Bool := g.errDataConv || !is.hasErr || is.errDataJson

def threadErrEncodable (g : Guards) (s : DbgState) (tid : Nat) : Bool :=
  match s.istates.lookup tid with
  | some is => errEncodable g is
  | none => true

def statusOf (g : Guards) : M Out :=
  locked do
    let s ← getS
    -- prettyPrintCallStack(v) for every call stack: s.Token.Lsource of every entry
    deref (s.stacks.all fun p => p.2.all fun f => f.nonNil && f.hasToken)
      "Status: prettyPrintCallStack: s.Token.Lsource"
    -- s["error"] = is.err for every thread with a call stack and an interrogation state
    if s.stacks.all fun p => threadErrEncodable g s p.1
    then pure (.status, false) else pure (.unencodable, false)

def lockState (g : Guards) : M Out := do
  let s ← getS
  if g.lockstateNil then do
    (if s.mutexLogSet then deref s.mutexLogSet "LockState: ed.mutexLog.StringSlice()" else pure ())
    (if s.threadPoolSet then deref s.threadPoolSet "LockState: ed.threadpool.State()" else pure ())
    pure (.lockstate, false)
  else do
    deref s.mutexLogSet "LockState: ed.mutexLog.StringSlice()"
    deref s.threadPoolSet "LockState: ed.threadpool.State()"
    pure (.lockstate, false)

def describeThread (g : Guards) (tid : Nat) : M Out :=
  locked do
    let s ← getS
    match s.stacks.lookup tid, s.istates.lookup tid with
    | some st, some is => do
      deref (st.all fun f => f.nonNil) "Describe: sn.ToJSONObject()"
      deref (st.all fun f => f.nonNil && f.hasToken) "Describe: prettyPrintCallStack: s.Token.Lsource"
      (if is.running then pure () else do
        deref is.hasNode "Describe: is.node.ToJSONObject()"
        deref is.hasVs "Describe: buildVsSnapshot: vs.Parent()")
      if errEncodable g is then pure (.describe, false) else pure (.unencodable, false)
    | _, _ => pure (.null, false)   -- nil map: encodes as null

/-- names a suspended thread sees -/
def visible (s : DbgState) (is : Interro) : List Str := is.locals ++ s.globals

def extractValue (tid : Nat) (varName dest : Str) : M Bool := do
  let s0 ← getS
  if !s0.globalScope then pure true
  else locked do
    let s ← getS
    match s.istates.lookup tid with
    | none => pure true
    | some is =>
      if is.running then pure true
      else do
        deref is.hasVs "ExtractValue: is.vs.GetValue"
        if (visible s is).contains varName then do
          -- ed.globalScope.SetValue(destVarName, val): a plain name, defined in the global scope
          modS fun s => { s with globals := if s.globals.contains dest then s.globals else dest :: s.globals }
          pure false
        else pure true

/-- parse + Validate + Eval of the expression; result: evaluated without error.
    An evaluation that visits the debugger needs `ed.lock.RLock`: with the (write) lock held by
    the very command that evaluates, that is a self-deadlock. -/
def evalExpr (o : EvalOutcome) : M Bool := fun s =>
  match o with
  | .ok => .ok true s
  | .error => .ok false s
  | .visits r => if s.lock ≠ 0 then .deadlock s else .ok r s
  | .diverges => .evaluating s

/-- `is.vs.SetValue(varName, val)` for the suspended thread; result: err != nil -/
def setInThread (env : Env) (tid : Nat) (varName : Str) (s : DbgState) (is : Interro) : M Bool := do
  deref is.hasVs "InjectValue: is.vs.SetValue"
  if varName.contains 46 then
    pure (!env.setPathOk tid varName)
  else if (visible s is).contains varName then pure false
  else if is.atGlobal then do
    modS fun s => { s with globals := varName :: s.globals }
    pure false
  else do
    modS fun s => { s with istates := put tid { is with locals := varName :: is.locals } s.istates }
    pure false

/-- second phase of the repaired InjectValue, after the evaluation returned without error:
    under the write lock, set the value if the thread is still suspended -/
def injectSecond (env : Env) (tid : Nat) (varName : Str) : M Bool :=
  locked do
    let s ← getS
    match s.istates.lookup tid with   -- the thread might have been continued in the meantime
    | none => pure true
    | some is => if is.running then pure true else setInThread env tid varName s is

def injectValue (g : Guards) (env : Env) (tid : Nat) (varName expr : Str) : M Bool := do
  let s0 ← getS
  if !s0.globalScope then pure true
  else if g.injectOutside then do
    -- look the thread up under the read lock, evaluate with no lock held, set under the write lock
    let suspended ← locked do
      let s ← getS
      match s.istates.lookup tid with
      | none => pure false
      | some is => pure (!is.running)
    if !suspended then pure true
    else do
      let ok ← evalExpr (env.eval expr)
      if !ok then pure true
      else injectSecond env tid varName
  else locked do
    -- before the repair: everything under `ed.lock.Lock(); defer ed.lock.Unlock()`
    let s ← getS
    match s.istates.lookup tid with
    | none => pure true
    | some is =>
      if is.running then pure true
      else do
        let ok ← evalExpr (env.eval expr)
        if !ok then pure true else setInThread env tid varName s is

/-! ## debug_cmd.go -/

inductive Cmd where
  | break_ | breakonstart | cont | describe | disablebreak | extract | inject | lockstate | rmbreak | status
  deriving DecidableEq, Repr

def Cmd.all : List Cmd :=
  [.break_, .breakonstart, .cont, .describe, .disablebreak, .extract, .inject, .lockstate, .rmbreak, .status]

/-- key in DebugCommandsMap -/
def Cmd.name : Cmd → String
  | .break_ => "break" | .breakonstart => "breakonstart" | .cont => "cont" | .describe => "describe"
  | .disablebreak => "disablebreak" | .extract => "extract" | .inject => "inject"
  | .lockstate => "lockstate" | .rmbreak => "rmbreak" | .status => "status"

/-- Go type registered under that key -/
def Cmd.goType : Cmd → String
  | .break_ => "setBreakpointCommand" | .breakonstart => "breakOnStartCommand" | .cont => "contCommand"
  | .describe => "describeCommand" | .disablebreak => "disableBreakpointCommand"
  | .extract => "extractCommand" | .inject => "injectCommand" | .lockstate => "lockstateCommand"
  | .rmbreak => "rmBreakpointCommand" | .status => "statusCommand"

/-- the argument-count test at the head of `Run`: is a call with `n` arguments turned away
    with the usage error before anything else happens? -/
def Cmd.rejects : Cmd → Nat → Bool
  | .break_, n => n == 0 | .breakonstart, _ => false | .cont, n => n != 2
  | .describe, n => n != 1 | .disablebreak, n => n == 0 | .extract, n => n != 3
  | .inject, n => n < 3 | .lockstate, _ => false | .rmbreak, n => n == 0 | .status, _ => false

/-- `Cmd.rejects` for 0..5 arguments, as the extractor prints it -/
def Cmd.rejectTable (c : Cmd) : String :=
  String.ofList ((List.range 6).map fun n => if c.rejects n then 'T' else 'F')

/-- does a regenerated table contradict the model's? (`?` = the extractor did not understand the
    condition: not established, not a contradiction) -/
def tableRefuted (gen model : String) : Bool :=
  gen.length != model.length || (gen.toList.zip model.toList).any fun p => p.1 != '?' && p.1 != p.2

/-- the vocabulary the model handles: (key, Go type), sorted by key -/
def vocabulary : List (String × String) := Cmd.all.map fun c => (c.name, c.goType)

/-- `DebugCommandsMap[name]` -/
def lookupCmd (name : Str) : Option Cmd := Cmd.all.find? fun c => str c.name == name

/-- strconv.ParseBool -/
def parseBool (s : Str) : Option Bool :=
  if [str "1", str "t", str "T", str "TRUE", str "true", str "True"].contains s then some true
  else if [str "0", str "f", str "F", str "FALSE", str "false", str "False"].contains s then some false
  else none

/-- setBreakpointCommand.Run and disableBreakpointCommand.Run (`v` = the value stored) -/
def runSetBreak (v : Bool) (args : List Str) : M Out :=
  if args.length = 0 then pure err
  else do
    let a0 ← idx args 0 "break: args[0]"
    let ts := split 58 a0
    if ts.length > 1 then do
      let t1 ← idx ts 1 "break: targetSplit[1]"
      match parseInt t1 with
      | some line => do
        let t0 ← idx ts 0 "break: targetSplit[0]"
        setBreakPoint t0 line v
        pure okNull
      | none => pure err
    else pure err

def runRmBreak (args : List Str) : M Out :=
  if args.length = 0 then pure err
  else do
    let a0 ← idx args 0 "rmbreak: args[0]"
    let ts := split 58 a0
    if ts.length > 1 then do
      let t1 ← idx ts 1 "rmbreak: targetSplit[1]"
      match parseInt t1 with
      | some line => do
        let t0 ← idx ts 0 "rmbreak: targetSplit[0]"
        removeBreakPoint t0 line
        pure okNull
      | none => pure okNull
    else do
      let a0' ← idx args 0 "rmbreak: args[0]"
      removeBreakPoint a0' (-1)
      pure okNull

def runBreakOnStart (args : List Str) : M Out :=
  if args.length > 0 then do
    let a0 ← idx args 0 "breakonstart: args[0]"
    breakOnStart ((parseBool a0).getD false)
    pure okNull
  else do
    breakOnStart true
    pure okNull

def runCont (g : Guards) (args : List Str) : M Out :=
  if args.length ≠ 2 then pure err
  else do
    let a0 ← idx args 0 "cont: args[0]"
    match assertNumParam a0 with
    | none => pure err
    | some tid => do
      let a1 ← idx args 1 "cont: args[1]"
      if lowerIs a1 "resume" then do continueThread g tid .resume; pure okNull
      else if lowerIs a1 "stepin" then do continueThread g tid .stepIn; pure okNull
      else if lowerIs a1 "stepover" then do continueThread g tid .stepOver; pure okNull
      else if lowerIs a1 "stepout" then do continueThread g tid .stepOut; pure okNull
      else pure err

def runDescribe (g : Guards) (args : List Str) : M Out :=
  if args.length ≠ 1 then pure err
  else do
    let a0 ← idx args 0 "describe: args[0]"
    match assertNumParam a0 with
    | none => pure err
    | some tid => describeThread g tid

def runExtract (args : List Str) : M Out :=
  if args.length ≠ 3 then pure err
  else do
    let a0 ← idx args 0 "extract: args[0]"
    match assertNumParam a0 with
    | none => pure err
    | some tid => do
      let a1 ← idx args 1 "extract: args[1]"
      let a2 ← idx args 2 "extract: args[2]"
      if !nameOk a1 || !nameOk a2 then pure err
      else do
        let e ← extractValue tid a1 a2
        pure (.null, e)

/-- strings.Join(xs, " ") -/
def joinSp : List Str → Str
  | [] => []
  | [x] => x
  | x :: rest => x ++ 32 :: joinSp rest

def runInject (g : Guards) (env : Env) (args : List Str) : M Out :=
  if args.length < 3 then pure err
  else do
    let a0 ← idx args 0 "inject: args[0]"
    match assertNumParam a0 with
    | none => pure err
    | some tid => do
      let a1 ← idx args 1 "inject: args[1]"
      let rest ← sliceFrom args 2 "inject: args[2:]"
      let e ← injectValue g env tid a1 (joinSp rest)
      pure (.null, e)

def Cmd.run (g : Guards) (env : Env) : Cmd → List Str → M Out
  | .break_, args => runSetBreak true args
  | .disablebreak, args => runSetBreak false args
  | .rmbreak, args => runRmBreak args
  | .breakonstart, args => runBreakOnStart args
  | .cont, args => runCont g args
  | .describe, args => runDescribe g args
  | .status, _ => statusOf g
  | .extract, args => runExtract args
  | .inject, args => runInject g env args
  | .lockstate, _ => lockState g

/-- ecalDebugger.HandleInput -/
def handleInput (g : Guards) (env : Env) (input : Str) : M Out :=
  let args := fields input
  if args.length > 0 then do
    let a0 ← idx args 0 "HandleInput: args[0]"
    match lookupCmd a0 with
    | some c =>
      if args.length > 1 then do
        let rest ← sliceFrom args 1 "HandleInput: args[1:]"
        c.run g env rest
      else c.run g env []
    | none => pure err
  else pure okNull

def Out.reply (o : Out) : Reply := if o.2 then .error else if o.1 = .unencodable then .notJson else .ok o.1

/-- one command line: successor state and reply class -/
def handleG (g : Guards) (env : Env) (s : DbgState) (line : Str) : DbgState × Reply :=
  match handleInput g env line s with
  | .ok o s' => (s', o.reply)
  | .panic site s' => (s', .panic site)
  | .deadlock s' => (s', .deadlock)
  | .evaluating s' => (s', .evaluating)

/-- the code as it is -/
def handle (env : Env) (s : DbgState) (line : Str) : DbgState × Reply := handleG repaired env s line

/-! ## Evaluator-side events (what running ECAL threads do to the debugger's tables) -/

/-- where a thread is after running for a while -/
inductive Watch where
  | free                                                    -- no interrogation state
  | running (cmd : ICmd) (hasErr errDataJson : Bool)        -- interrogated, running
  | suspended (hasErr errDataJson atGlobal : Bool) (locals : List Str)  -- waiting in waitForContinue
  deriving DecidableEq, Repr

inductive Event where
  /-- first VisitState of a thread: the call-stack entries are created -/
  | start (tid : Nat)
  /-- SetLockingState / SetThreadPool after a VisitState returned -/
  | setRefs
  /-- only SetLockingState has run (SetThreadPool is the next statement of baseRuntime.Eval) -/
  | setLockingState
  /-- StopThreads: every waiting thread is told to end (command Kill) and released -/
  | stopThreads
  /-- RecordSource -/
  | source (src : Str)
  /-- the thread ran (any number of VisitState / VisitStepInState / VisitStepOutState) and is
      now at call depth `depth` in the given interrogation status -/
  | advance (tid : Nat) (depth : Nat) (w : Watch)
  /-- RecordThreadFinished -/
  | finish (tid : Nat)
  /-- a running thread assigned variables of the global scope -/
  | setGlobals (names : List Str)
  /-- an `inject` that was still evaluating (reply `evaluating`) gets its result after all: the
      second phase of InjectValue runs (write lock, set the value if the thread still waits) -/
  | injectCompletes (pathOk : Bool) (tid : Nat) (varName : Str)
  deriving DecidableEq, Repr

/-- is the thread waiting in `waitForContinue`? (`running = false` is only set right before the wait) -/
def isSuspended (s : DbgState) (tid : Nat) : Bool :=
  match s.istates.lookup tid with
  | some is => !is.running
  | none => false

def frames (depth : Nat) : List Frame := List.replicate depth { nonNil := true, hasToken := true }

/-- `none`: the event cannot happen in this state (a suspended thread does not move, …) -/
def applyEvent (s : DbgState) : Event → Option DbgState
  | .start tid =>
    if (s.stacks.lookup tid).isSome then none
    else some { s with stacks := put tid [] s.stacks }
  | .setRefs => some { s with ownersSet := true, mutexLogSet := true, threadPoolSet := true }
  | .setGlobals names => some { s with globals := names }
  | .setLockingState => some { s with ownersSet := true, mutexLogSet := true }
  | .stopThreads =>
    some { s with istates := s.istates.map fun p => if p.2.running then p else (p.1, { p.2 with running := true, cmd := .kill }) }
  | .source src => some { s with sources := if s.sources.contains src then s.sources else src :: s.sources }
  | .advance tid depth w =>
    if (s.stacks.lookup tid).isNone || isSuspended s tid then none
    else
      let s1 := { s with stacks := put tid (frames depth) s.stacks }
      match w with
      | .free => some { s1 with istates := del tid s.istates }
      | .running cmd hasErr errDataJson =>
        match s.istates.lookup tid with
        | some is => some { s1 with istates := put tid { is with cmd := cmd, hasErr := hasErr, errDataJson := errDataJson } s.istates }
        | none => none
      | .suspended hasErr errDataJson atGlobal locals =>
        some { s1 with
          breakOnStart := if (s.istates.lookup tid).isNone then false else s.breakOnStart
          istates := put tid { running := false, cmd := .stop, hasNode := true, hasVs := true,
                               hasErr := hasErr, errDataJson := errDataJson, stepOutStack := none, atGlobal := atGlobal,
                               locals := locals } s.istates }
  | .injectCompletes pathOk tid varName =>
    match injectSecond { eval := fun _ => .ok, setPathOk := fun _ _ => pathOk } tid varName s with
    | .ok _ s' => some s'
    | _ => none
  | .finish tid =>
    if (s.stacks.lookup tid).isNone || isSuspended s tid then none
    else some { s with stacks := del tid s.stacks, istates := del tid s.istates }  -- all tables of the thread


/-! ## VisitState: what an evaluating thread does with the debugger's lock

The command side can only be total if no thread keeps `ed.lock` while it waits in
`waitForContinue`. `visitEvents` is the sequence of lock operations and wait points of one
call of `VisitState` (debug.go, after fix ea3a1ee: while stepping over / out of a function
the thread stops at active break points on the way), as a function of the branch conditions.
`deferred = true` is the variant in which the break point lookup of the step branch releases
its read lock by `defer` (function exit) instead of right after the map read. -/

inductive LockEv where
  | rlock | runlock | wlock | wunlock
  | wait      -- is.waitForContinue()
  | goexit    -- runtime.Goexit() of a killed thread
  deriving DecidableEq, Repr

/-- the branch conditions of one VisitState call -/
structure VisitIn where
  known : Bool                     -- callStacks has an entry for the thread
  hasToken : Bool                  -- node.Token != nil (statement lists have none)
  sourceKnown : Bool
  istate : Option (ICmd × Bool)    -- interrogation state: its command, "on another line than is.node"
  bpActive : Bool                  -- an active break point on this line
  breakOnStart : Bool
  deriving DecidableEq, Repr

/-- the branch without interrogation state (also the tail call after a resume command was removed) -/
def visitFresh (i : VisitIn) : List LockEv :=
  if i.bpActive || i.breakOnStart then [.wlock, .wunlock, .wait] else []

def visitEvents (deferred : Bool) (i : VisitIn) : List LockEv :=
  [.rlock, .runlock] ++ (if i.known then [] else [.wlock, .wunlock]) ++
  (if !i.hasToken then [] else
    [.rlock, .runlock] ++ (if i.sourceKnown then [] else [.wlock, .wunlock]) ++
    match i.istate with
    | none => visitFresh i
    | some (cmd, otherLine) =>
      match cmd with
      | .resume => if otherLine then [.wlock, .wunlock, .rlock, .runlock, .rlock, .runlock] ++ visitFresh i else []
      | .kill => if otherLine then [.wlock, .wunlock, .goexit] else []
      | .stop => [.wait]
      | .stepIn | .stepOver => if otherLine then [.wait] else []
      | .stepOut =>
        if otherLine then
          if deferred then [.rlock] ++ (if i.bpActive then [.wait] else []) ++ [.runlock]
          else [.rlock, .runlock] ++ (if i.bpActive then [.wait] else [])
        else [])

/-- number of holds of `ed.lock` by the thread after each prefix; recorded at every wait point -/
def heldAtWaits : List LockEv → Nat → List Nat
  | [], _ => []
  | .rlock :: r, n => heldAtWaits r (n + 1)
  | .wlock :: r, n => heldAtWaits r (n + 1)
  | .runlock :: r, n => heldAtWaits r (n - 1)
  | .wunlock :: r, n => heldAtWaits r (n - 1)
  | .wait :: r, n => n :: heldAtWaits r n
  | .goexit :: r, n => heldAtWaits r n

def heldAfter : List LockEv → Nat → Nat
  | [], n => n
  | .rlock :: r, n => heldAfter r (n + 1)
  | .wlock :: r, n => heldAfter r (n + 1)
  | .runlock :: r, n => heldAfter r (n - 1)
  | .wunlock :: r, n => heldAfter r (n - 1)
  | _ :: r, n => heldAfter r n


/-- VisitStepInState: `Lock(); defer Unlock()`; when the thread is interrogated with command
    Stop the lock is given up around a nested VisitState (which may wait) and taken again -/
def visitStepInEvents (deferred : Bool) (interrogatedStop : Bool) (i : VisitIn) : List LockEv :=
  [.wlock] ++ (if interrogatedStop then [.wunlock] ++ visitEvents deferred i ++ [.wlock] else []) ++ [.wunlock]

/-- VisitStepOutState: `Lock(); defer Unlock()`; on a new error with break-on-error the lock is
    given up around the wait and taken again (`giveUp = false`: a variant that waits inside) -/
def visitStepOutEvents (giveUp : Bool) (stopsOnError : Bool) : List LockEv :=
  [.wlock] ++ (if stopsOnError then (if giveUp then [.wunlock, .wait, .wlock] else [.wait]) else []) ++ [.wunlock]

end Ecal.DebugCmd
