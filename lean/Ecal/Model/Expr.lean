/-!
# C03 — self-contained model of the expression fragment

Tokens come from the REAL lexer (`parser.LexToList`), so this file has no lexer.

* `Table` — what the Pratt loop reads from `astNodeMap` (regenerated from
  `/repo/parser/parser.go` into `Ecal/Gen/C03.lean` on every run).
* `Impl.run / loop / items / parse` — `(*parser).run`, `ndTerm`, `ndIdentifier`
  (plain identifiers only), `ndInner`, `ndList`, `ndPrefix`, `ldInfix`,
  fuel-indexed, table driven, including the "token without left denotation on a
  later line ends the expression" rule.
* `Spec.pr` — the documented precedence grammar as the minimal-parentheses
  unparser; `Spec.Prints` — every way of writing a tree with at least the needed
  parentheses (arbitrary redundant ones).
* `Impl.eval` — `numOp/boolOp/strOp/genOp/listOp/numVal/boolVal` and the operator
  runtimes with their evaluation order and fallbacks; `Spec.eval` — one direct
  definition per operator.

Strings are byte lists. Numbers live in an abstract carrier `Num N`; the driver
instantiates it with `Float`.
-/
namespace Ecal.Expr

abbrev Str := List Nat

/-! ## Syntax -/

/-- the 19 binary operators of the property and the assignment -/
inductive BinOp where
  | geq | leq | neq | eq | gt | lt
  | plus | minus | times | div | divint | modint
  | and | or
  | like | isin | hasprefix | hassuffix | notin
  | assign
  deriving DecidableEq, Repr, Inhabited

def BinOp.all : List BinOp :=
  [.geq, .leq, .neq, .eq, .gt, .lt, .plus, .minus, .times, .div, .divint, .modint,
   .and, .or, .like, .isin, .hasprefix, .hassuffix, .notin, .assign]

theorem BinOp.mem_all (o : BinOp) : o ∈ BinOp.all := by cases o <;> simp [BinOp.all]

inductive PreOp where
  | neg | pos | not
  deriving DecidableEq, Repr, Inhabited

def PreOp.all : List PreOp := [.neg, .pos, .not]

theorem PreOp.mem_all (p : PreOp) : p ∈ PreOp.all := by cases p <;> simp [PreOp.all]

/-- terminals; `txt` is the token text (it names the operand in errors), `bits` the
    float64 bit pattern `strconv.ParseFloat` gives for the text -/
inductive Atom where
  | num (txt : Str) (bits : Nat)
  | str (s : Str)
  | ident (name : Str)
  | tru (txt : Str)
  | fls (txt : Str)
  | null (txt : Str)
  deriving DecidableEq, Repr, Inhabited

/-- token without position -/
inductive TK where
  | atom (a : Atom)
  | lp | rp | lb | rb | comma | eof
  | not (txt : Str)
  | op (o : BinOp) (txt : Str)
  | other (name : Str)
  deriving DecidableEq, Repr, Inhabited

/-- token kinds = keys of `astNodeMap` that matter here -/
inductive Kind where
  | num | str | ident | tru | fls | null
  | lp | rp | lb | rb | comma | eof
  | not
  | op (o : BinOp)
  | other
  deriving DecidableEq, Repr, Inhabited

def Atom.kind : Atom → Kind
  | .num .. => .num | .str _ => .str | .ident _ => .ident
  | .tru _ => .tru | .fls _ => .fls | .null _ => .null

def TK.kind : TK → Kind
  | .atom a => a.kind
  | .lp => .lp | .rp => .rp | .lb => .lb | .rb => .rb | .comma => .comma | .eof => .eof
  | .not _ => .not
  | .op o _ => .op o
  | .other _ => .other

/-- lexer token: kind + text + line -/
structure LTok where
  tk : TK
  line : Nat
  deriving DecidableEq, Repr, Inhabited

mutual
inductive Expr where
  | atom (a : Atom)
  | list (items : Items)
  | bin (o : BinOp) (txt : Str) (l r : Expr)
  | pre (p : PreOp) (txt : Str) (x : Expr)
inductive Items where
  | nil
  | cons (e : Expr) (rest : Items)
end

deriving instance Repr for Expr
deriving instance Repr for Items
deriving instance DecidableEq for Expr
deriving instance DecidableEq for Items
instance : Inhabited Expr := ⟨.atom default⟩

/-! ## The table read from `astNodeMap` -/

inductive Nud where
  | none | term | ident | inner | list | pre | other
  deriving DecidableEq, Repr

inductive Led where
  | none | infix | other
  deriving DecidableEq, Repr

structure Table where
  binding : Kind → Nat
  nud : Kind → Nud
  led : Kind → Led
  /-- name of the `Node…` constant (ties the token to its runtime) -/
  node : Kind → String
  /-- `ndPrefix`: `p.run(self.binding + prefixExtra - prefixSub)` -/
  prefixExtra : Nat
  prefixSub : Nat
  /-- `ldInfix`: `p.run(self.binding + infixExtra - infixSub)` -/
  infixExtra : Nat
  infixSub : Nat
  /-- `ndInner`: `p.run(innerBinding)` -/
  innerBinding : Nat
  /-- `ndList`: `p.run(listBinding)` -/
  listBinding : Nat

/-- the prefix operator a token denotes in null position -/
def preOf : TK → Option (PreOp × Str)
  | .op .minus t => some (.neg, t)
  | .op .plus t => some (.pos, t)
  | .not t => some (.not, t)
  | _ => none

def preTok : PreOp → Str → TK
  | .neg, t => .op .minus t
  | .pos, t => .op .plus t
  | .not, t => .not t

def preKind : PreOp → Kind
  | .neg => .op .minus
  | .pos => .op .plus
  | .not => .not

theorem preOf_preTok (p : PreOp) (t : Str) : preOf (preTok p t) = some (p, t) := by
  cases p <;> rfl

theorem preTok_kind (p : PreOp) (t : Str) : (preTok p t).kind = preKind p := by
  cases p <;> rfl

theorem preOf_some {tk : TK} {p : PreOp} {t : Str} (h : preOf tk = some (p, t)) : tk = preTok p t := by
  cases tk with
  | op o s => cases o <;> simp [preOf] at h <;> (obtain ⟨rfl, rfl⟩ := h; rfl)
  | not s => simp [preOf] at h; obtain ⟨rfl, rfl⟩ := h; rfl
  | _ => simp [preOf] at h

/-! ## Impl: the Pratt loop -/

inductive PErr where
  | noNud | noLed | unexpected | ended | unsupported | fuel
  deriving DecidableEq, Repr

abbrev PRes (α : Type) := Except PErr α

/-- `ndIdentifier` continues with a call / an access when the next token is `(`, or `[`
    on the line of the identifier (outside the fragment) -/
def opensAfter (line : Nat) : List LTok → Bool
  | ⟨.lp, _⟩ :: _ => true
  | ⟨.lb, l⟩ :: _ => l == line
  | _ => false

/-- `if p.node.Token.ID == TokenCOMMA { skipToken }` -/
def dropComma : List LTok → List LTok
  | ⟨.comma, _⟩ :: ts => ts
  | ts => ts

namespace Impl

mutual
/-- `(*parser).run(rightBinding)`; returns the tree, the line of its root token
    (`left.Token.Lline`) and the remaining tokens (head = `p.node`). -/
def run (T : Table) : Nat → Nat → List LTok → PRes (Expr × Nat × List LTok)
  | 0, _, _ => .error .fuel
  | _+1, _, [] => .error .ended
  | f+1, m, t :: ts =>
    match t.tk with
    | .atom a =>
      if T.nud a.kind = .term then loop T f m (.atom a) t.line ts
      else if T.nud a.kind = .ident then
        (if opensAfter t.line ts then .error .unsupported else loop T f m (.atom a) t.line ts)
      else if T.nud a.kind = .none then .error .noNud
      else .error .unsupported
    | .lp =>
      if T.nud .lp = .inner then
        match run T f T.innerBinding ts with
        | .ok (e, ln, ts1) =>
          (match ts1 with
           | ⟨.rp, _⟩ :: ts2 => loop T f m e ln ts2
           | _ => .error .unexpected)
        | .error x => .error x
      else .error .unsupported
    | .lb =>
      if T.nud .lb = .list then
        match items T f ts with
        | .ok (its, ts1) => loop T f m (.list its) t.line ts1
        | .error x => .error x
      else .error .unsupported
    | .eof => .error .ended
    | tk =>
      if T.nud tk.kind = .pre then
        match preOf tk with
        | some (p, txt) =>
          (match run T f (T.binding tk.kind + T.prefixExtra - T.prefixSub) ts with
           | .ok (x, _, ts1) => loop T f m (.pre p txt x) t.line ts1
           | .error x => .error x)
        | none => .error .unsupported
      else if T.nud tk.kind = .none then .error .noNud
      else .error .unsupported
/-- the `for rightBinding < p.node.binding` loop of `run` -/
def loop (T : Table) : Nat → Nat → Expr → Nat → List LTok → PRes (Expr × Nat × List LTok)
  | 0, _, _, _, _ => .error .fuel
  | _+1, _, left, ll, [] => .ok (left, ll, [])
  | f+1, m, left, ll, t :: ts =>
    if m < T.binding t.tk.kind then
      if T.led t.tk.kind = .none then
        (if ll < t.line then .ok (left, ll, t :: ts) else .error .noLed)
      else if T.led t.tk.kind = .infix then
        match t.tk with
        | .op o txt =>
          (match run T f (T.binding (.op o) + T.infixExtra - T.infixSub) ts with
           | .ok (r, _, ts1) => loop T f m (.bin o txt left r) t.line ts1
           | .error x => .error x)
        | _ => .error .unsupported
      else .error .unsupported
    else .ok (left, ll, t :: ts)
/-- the element loop of `ndList` (after `[`), including the closing `]` -/
def items (T : Table) : Nat → List LTok → PRes (Items × List LTok)
  | 0, _ => .error .fuel
  | _+1, [] => .error .ended
  | f+1, t :: ts =>
    if t.tk = .rb then .ok (.nil, ts)
    else if t.tk = .eof then .error .ended
    else
      match run T f T.listBinding (t :: ts) with
      | .ok (e, _, ts1) =>
        (match items T f (dropComma ts1) with
         | .ok (rest, ts2) => .ok (.cons e rest, ts2)
         | .error x => .error x)
      | .error x => .error x
end

/-- `ParseWithRuntime` for a one-expression program -/
def parseFuel (T : Table) (fuel : Nat) (ts : List LTok) : PRes Expr :=
  match run T fuel 0 ts with
  | .ok (e, ln, rest) =>
    (match rest with
     | [] => .error .ended
     | t :: _ =>
       if t.tk = .eof then .ok e
       else if ln < t.line then .error .unsupported   -- a further statement
       else .error .unexpected)
  | .error x => .error x

def parse (T : Table) (ts : List LTok) : PRes Expr := parseFuel T (2 * ts.length + 4) ts

/-- `ParseWithRuntime` for a program of expression statements separated by line ends
    (`hasMoreStatements`: the next token is on a later line than the statement's root token);
    `;` is outside the fragment. One statement: `[e]` exactly when `parse` gives `e`. -/
def parseProgram (T : Table) : Nat → List LTok → PRes (List Expr)
  | 0, _ => .error .fuel
  | n+1, ts =>
    match run T (2 * ts.length + 4) 0 ts with
    | .ok (e, ln, rest) =>
      (match rest with
       | [] => .error .ended
       | t :: _ =>
         if t.tk = .eof then .ok [e]
         else if ln < t.line then
           (match parseProgram T n rest with
            | .ok es => .ok (e :: es)
            | .error x => .error x)
         else .error .unexpected)
    | .error x => .error x

end Impl

/-! ## Relational form of the loop (successful parses, token kinds only) -/

section Rel
variable (T : Table)

def bp (o : BinOp) : Nat := T.binding (.op o)
def pbp (p : PreOp) : Nat := T.binding (preKind p) + T.prefixExtra - T.prefixSub

def lbp : List TK → Nat
  | t :: _ => T.binding t.kind
  | [] => 0

def notOpen : List TK → Prop
  | .lp :: _ => False
  | .lb :: _ => False
  | _ => True

def startsItem : List TK → Prop
  | .rb :: _ => False
  | .eof :: _ => False
  | _ => True

def dropCommaK : List TK → List TK
  | .comma :: ts => ts
  | ts => ts

mutual
inductive Run : Nat → List TK → Expr → List TK → Prop
  | atom {m a ts e rest} : notOpen ts → Loop m (.atom a) ts e rest → Run m (.atom a :: ts) e rest
  | paren {m ts e1 ts' e rest} : Run 0 ts e1 (.rp :: ts') → Loop m e1 ts' e rest →
      Run m (.lp :: ts) e rest
  | list {m ts its ts' e rest} : ItemsR ts its ts' → Loop m (.list its) ts' e rest →
      Run m (.lb :: ts) e rest
  | pre {m tk p txt ts x ts' e rest} : preOf tk = some (p, txt) → Run (pbp T p) ts x ts' →
      Loop m (.pre p txt x) ts' e rest → Run m (tk :: ts) e rest
inductive Loop : Nat → Expr → List TK → Expr → List TK → Prop
  | stop {m left ts} : ¬ (m < lbp T ts) → Loop m left ts left ts
  | op {m o txt left ts r ts' e rest} : m < bp T o → Run (bp T o) ts r ts' →
      Loop m (.bin o txt left r) ts' e rest → Loop m left (.op o txt :: ts) e rest
inductive ItemsR : List TK → Items → List TK → Prop
  | done {ts} : ItemsR (.rb :: ts) .nil ts
  | cons {ts e ts1 rest r} : startsItem ts → Run 0 ts e ts1 → ItemsR (dropCommaK ts1) rest r →
      ItemsR ts (.cons e rest) r
end
end Rel

/-! ## Spec: the documented precedence grammar as an unparser -/

namespace Spec

/-- documented precedence levels: assignment < or < and < comparison/membership <
    additive < multiplicative -/
def lvl : BinOp → Nat
  | .assign => 1
  | .or => 2
  | .and => 3
  | .geq | .leq | .neq | .eq | .gt | .lt | .like | .isin | .hasprefix | .hassuffix | .notin => 5
  | .plus | .minus => 6
  | .times | .div | .divint | .modint => 7

/-- what a prefix operator applies to: `not` to the following comparison (everything
    binding tighter than `and`), `-`/`+` to the following primary -/
def plvl : PreOp → Nat
  | .not => 3
  | .neg | .pos => 8

/-- where an expression is written: which enclosing construct would capture a loosely
    binding operator -/
inductive MCtx where
  | top
  | leftOf (o : BinOp)
  | rightOf (o : BinOp)
  | operandOf (p : PreOp)
  deriving DecidableEq, Repr

/-- what follows the expression: nothing that matters, or the operator whose left
    operand ends here -/
inductive FCtx where
  | none
  | before (o : BinOp)
  deriving DecidableEq, Repr

def MCtx.all : List MCtx :=
  .top :: (BinOp.all.map .leftOf ++ BinOp.all.map .rightOf ++ PreOp.all.map .operandOf)

def FCtx.all : List FCtx := .none :: BinOp.all.map .before

theorem MCtx.mem_all (m : MCtx) : m ∈ MCtx.all := by
  cases m with
  | top => simp [MCtx.all]
  | leftOf o => simp [MCtx.all, BinOp.mem_all]
  | rightOf o => simp [MCtx.all, BinOp.mem_all]
  | operandOf p => simp [MCtx.all, PreOp.mem_all]

theorem FCtx.mem_all (f : FCtx) : f ∈ FCtx.all := by
  cases f with
  | none => simp [FCtx.all]
  | before o => simp [FCtx.all, BinOp.mem_all]

/-- a binary operator may stand without parentheses: as left operand of an operator
    that does not bind tighter (left associativity), as right operand of one that binds
    looser, under a prefix operator that reaches it -/
def fitsBin : MCtx → BinOp → Bool
  | .top, _ => true
  | .leftOf j, k => lvl j ≤ lvl k
  | .rightOf j, k => lvl j < lvl k
  | .operandOf p, k => plvl p < lvl k

/-- a prefix operator swallows everything that follows and binds tighter than its
    operand level: it may stand without parentheses only if what follows does not -/
def fitsPre : FCtx → PreOp → Bool
  | .none, _ => true
  | .before j, p => lvl j ≤ plvl p

mutual
/-- the minimal-parentheses unparser -/
def pr : Expr → MCtx → FCtx → List TK
  | .atom a, _, _ => [.atom a]
  | .list its, _, _ => .lb :: prItems its
  | .bin o txt l r, mc, fc =>
    if fitsBin mc o then pr l (.leftOf o) (.before o) ++ (.op o txt :: pr r (.rightOf o) fc)
    else .lp :: ((pr l (.leftOf o) (.before o) ++ (.op o txt :: pr r (.rightOf o) .none)) ++ [.rp])
  | .pre p txt x, _, fc =>
    if fitsPre fc p then preTok p txt :: pr x (.operandOf p) fc
    else .lp :: ((preTok p txt :: pr x (.operandOf p) .none) ++ [.rp])
def prItems : Items → List TK
  | .nil => [.rb]
  | .cons e .nil => pr e .top .none ++ [.rb]
  | .cons e rest => pr e .top .none ++ (.comma :: prItems rest)
end

mutual
/-- every admissible way of writing a tree: at least the parentheses the grammar needs,
    any number of further ones around any sub-expression -/
inductive Prints : Expr → MCtx → FCtx → List TK → Prop
  | atom {a mc fc} : Prints (.atom a) mc fc [.atom a]
  | list {its ts mc fc} : PrintsItems its ts → Prints (.list its) mc fc (.lb :: ts)
  | bin {o txt l r mc fc tl tr} : fitsBin mc o = true → Prints l (.leftOf o) (.before o) tl →
      Prints r (.rightOf o) fc tr → Prints (.bin o txt l r) mc fc (tl ++ (.op o txt :: tr))
  | pre {p txt x mc fc tx} : fitsPre fc p = true → Prints x (.operandOf p) fc tx →
      Prints (.pre p txt x) mc fc (preTok p txt :: tx)
  | paren {e ts mc fc} : Prints e .top .none ts → Prints e mc fc (.lp :: (ts ++ [.rp]))
inductive PrintsItems : Items → List TK → Prop
  | nil : PrintsItems .nil [.rb]
  | last {e ts} : Prints e .top .none ts → PrintsItems (.cons e .nil) (ts ++ [.rb])
  | cons {e rest ts ts'} : Prints e .top .none ts → PrintsItems rest ts' →
      PrintsItems (.cons e rest) (ts ++ (.comma :: ts'))
  /-- the comma may be left out before an element that starts with a literal or an identifier
      (`[1 2]`, `[a "x" true]`): such a token can neither continue the element before it nor does
      its reading depend on the line it stands on. (Before `(`, `[`, `not` the parser needs a line
      end, before `-`/`+` it reads a binary operator: those writings are not admitted here.) -/
  | juxt {e rest ts ts' a tl} : Prints e .top .none ts → PrintsItems rest ts' → ts' = .atom a :: tl →
      PrintsItems (.cons e rest) (ts ++ ts')
end

end Spec


/-! ## Values -/

mutual
inductive Val (N : Type) where
  | null
  | bool (b : Bool)
  | num (n : N)
  | str (s : Str)
  /-- a `[]interface{}`: `addr` identifies the backing array of a list held by the environment
      (0 = a fresh list, the value of a list literal: never shared), `isNil` = nil slice (what the
      literal `[]` evaluates to; an empty list from the host may be non-nil) -/
  | list (addr : Nat) (isNil : Bool) (vs : Vals N)
inductive Vals (N : Type) where
  | nil
  | cons (v : Val N) (rest : Vals N)
end

instance {N : Type} : Inhabited (Val N) := ⟨.null⟩

/-- the numeric carrier: float64 with the operations the interpreter uses -/
structure Num (N : Type) where
  /-- value of a float64 bit pattern (number literals) -/
  ofBits : Nat → N
  add : N → N → N
  sub : N → N → N
  mul : N → N → N
  div : N → N → N
  neg : N → N
  /-- `math.Floor` -/
  floor : N → N
  /-- `<`, `<=`, `==` of float64 -/
  lt : N → N → Bool
  le : N → N → Bool
  eq : N → N → Bool
  /-- `int64(x)` (implementation defined outside the int64 range) -/
  toInt : N → Int
  /-- `float64(i)` for an int64 -/
  ofInt : Int → N
  /-- `fmt.Sprint(x)` -/
  text : N → Str
  /-- x is finite and its truncation lies in the int64 range (where `int64(x)` is defined by Go) -/
  inInt64 : N → Bool
  /-- the remainder of the truncated operands computed without the int64 detour (`none`: an operand
      is NaN / infinite, or the divisor truncates to 0): what `%` means outside the int64 range -/
  wideMod : N → N → Option N

/-- what evaluation needs besides the tree -/
structure Cfg (N : Type) where
  C : Num N
  /-- `regexp.Compile(pattern)` then `MatchString(subject)`; `none` = does not compile -/
  re : (subject pattern : Str) → Option Bool
  /-- the variables (unknown names read as null) -/
  var : Str → Val N

section Values
variable {N : Type}

mutual
/-- `valuesEqual`: Go interface equality, lists by content (`reflect.DeepEqual`) -/
def Val.eqv (C : Num N) : Val N → Val N → Bool
  | .null, .null => true
  | .bool a, .bool b => a == b
  | .num a, .num b => C.eq a b
  | .str a, .str b => a == b
  -- reflect.DeepEqual on slices: nil-ness must agree, then the lengths (part of the elementwise
  -- comparison here), identical backing arrays are equal WITHOUT looking at the elements, otherwise
  -- element by element
  | .list a1 n1 vs1, .list a2 n2 vs2 =>
    if n1 != n2 then false
    else if a1 != 0 && a1 == a2 then true
    else Vals.eqv C vs1 vs2
  | _, _ => false
def Vals.eqv (C : Num N) : Vals N → Vals N → Bool
  | .nil, .nil => true
  | .cons a as, .cons b bs => Val.eqv C a b && Vals.eqv C as bs
  | _, _ => false
end

def str! (s : String) : Str := s.toUTF8.toList.map (·.toNat)

mutual
/-- `fmt.Sprint(v)` -/
def Val.text (C : Num N) : Val N → Str
  | .null => [60, 110, 105, 108, 62]            -- "<nil>"
  | .bool true => [116, 114, 117, 101]          -- "true"
  | .bool false => [102, 97, 108, 115, 101]     -- "false"
  | .num n => C.text n
  | .str s => s
  | .list _ _ vs => 91 :: (Vals.text C vs ++ [93])  -- "[" … "]"
def Vals.text (C : Num N) : Vals N → Str
  | .nil => []
  | .cons v .nil => Val.text C v
  | .cons v rest => Val.text C v ++ (32 :: Vals.text C rest)
end

/-- the value of a list literal: a fresh slice built by `append`, nil when there is no element -/
def mkList (vs : Vals N) : Val N :=
  match vs with
  | .nil => .list 0 true .nil
  | vs => .list 0 false vs

/-- the loop of the `in` operator -/
def Vals.has (C : Num N) (v : Val N) : Vals N → Bool
  | .nil => false
  | .cons x xs => Val.eqv C v x || Vals.has C v xs

/-- Go's `<` on strings: bytewise lexicographic -/
def strLt : Str → Str → Bool
  | [], [] => false
  | [], _ :: _ => true
  | _ :: _, [] => false
  | a :: as, b :: bs => if a < b then true else if b < a then false else strLt as bs

end Values

inductive ErrKind where
  | notANumber | notABoolean | notAList
  /-- `util.ErrRuntimeError`: modulo by zero, invalid pattern -/
  | runtime
  deriving DecidableEq, Repr

/-- result of an evaluation: a value, or an error: its kind, the text of the operand it names
    (`Detail`) and the operand it is attached to (`RuntimeError.Node`): `some i` = child `i` of
    the operator that raised it, `none` = the operator itself -/
inductive Out (N : Type) where
  | val (v : Val N)
  | err (k : ErrKind) (name : Str) (node : Option Nat)

/-- the text of the operand's token: what `errorDetailString` names (for identifiers it
    appends `=value`; the comparison cuts that off) -/
def opName : Expr → Str
  | .atom (.num t _) => t
  | .atom (.str s) => s
  | .atom (.ident n) => n
  | .atom (.tru t) => t
  | .atom (.fls t) => t
  | .atom (.null t) => t
  | .list _ => [91]
  | .bin _ t _ _ => t
  | .pre _ t _ => t

mutual
/-- an assignment somewhere in the tree (evaluation then has an effect: outside the fragment;
    at the root it is handled by the driver: the value of the right side is bound) -/
def hasAssign : Expr → Bool
  | .atom _ => false
  | .list its => hasAssignItems its
  | .bin .assign _ _ _ => true
  | .bin _ _ l r => hasAssign l || hasAssign r
  | .pre _ _ x => hasAssign x
def hasAssignItems : Items → Bool
  | .nil => false
  | .cons e rest => hasAssign e || hasAssignItems rest
end

/-- The one place where the code deviates from "the error is attached to the operand it names"
    (known finding `error-node-left-operand`): `boolOp` and `listOp` attach the error about
    their RIGHT operand to their LEFT child. -/
def quirkNode : ErrKind → Option Nat → Option Nat
  | .notABoolean, some 1 => some 0
  | .notAList, some 1 => some 0
  | _, p => p

def Out.quirk {N : Type} : Out N → Out N
  | .val v => .val v
  | .err k s p => .err k s (quirkNode k p)

/-- what an outcome is apart from the node an error is attached to -/
def Out.core {N : Type} : Out N → Out N
  | .err k s _ => .err k s none
  | o => o

/-! ## Impl: evaluation as the interpreter does it -/

namespace Impl
variable {N : Type}

/-- `numVal` -/
def numVal (f : N → Val N) (n : Str) : Out N → Out N
  | .err k s p => .err k s p
  | .val (.num a) => .val (f a)
  | .val _ => .err .notANumber n (some 0)

/-- `boolVal` -/
def boolVal (f : Bool → Val N) (n : Str) : Out N → Out N
  | .err k s p => .err k s p
  | .val (.bool a) => .val (f a)
  | .val _ => .err .notABoolean n (some 0)

/-- `numOp`: both operands are evaluated (left error first), then the left one is
    checked, then the right one. `f` may itself fail (`%`). -/
def numOp (f : N → N → Out N) (n1 n2 : Str) : Out N → Out N → Out N
  | .err k s p, _ => .err k s p
  | .val _, .err k s p => .err k s p
  | .val (.num a), .val (.num b) => f a b
  | .val (.num _), .val _ => .err .notANumber n2 (some 1)
  | .val _, .val _ => .err .notANumber n1 (some 0)

/-- `genOp` -/
def genOp (f : Val N → Val N → Val N) : Out N → Out N → Out N
  | .err k s p, _ => .err k s p
  | .val _, .err k s p => .err k s p
  | .val a, .val b => .val (f a b)

/-- `strOp`: the operands' `fmt.Sprint` forms -/
def strOp (C : Num N) (f : Str → Str → Val N) : Out N → Out N → Out N
  | .err k s p, _ => .err k s p
  | .val _, .err k s p => .err k s p
  | .val a, .val b => .val (f (a.text C) (b.text C))

/-- `boolOp`: no short circuit — both operands are evaluated and checked -/
def boolOp (f : Bool → Bool → Val N) (n1 n2 : Str) : Out N → Out N → Out N
  | .err k s p, _ => .err k s p
  | .val _, .err k s p => .err k s p
  | .val (.bool a), .val (.bool b) => .val (f a b)
  | .val (.bool _), .val _ => .err .notABoolean n2 (some 0)   -- names operand 1, attached to child 0 (as the code does)
  | .val _, .val _ => .err .notABoolean n1 (some 0)

/-- `listOp` -/
def listOp (f : Val N → Vals N → Val N) (n2 : Str) : Out N → Out N → Out N
  | .err k s p, _ => .err k s p
  | .val _, .err k s p => .err k s p
  | .val a, .val (.list _ _ vs) => .val (f a vs)
  | .val _, .val _ => .err .notAList n2 (some 0)   -- names operand 1, attached to child 0 (as the code does)

/-- comparison operators: `numOp`, and on ANY error of it `strOp` on the same operands
    (the interpreter evaluates them again; evaluation in this fragment has no effects,
    so the outcomes are the same) -/
def cmpOp (C : Num N) (fn : N → N → Bool) (fs : Str → Str → Bool) (n1 n2 : Str) (o1 o2 : Out N) : Out N :=
  match numOp (fun a b => .val (.bool (fn a b))) n1 n2 o1 o2 with
  | .err _ _ _ => strOp C (fun a b => .bool (fs a b)) o1 o2
  | r => r

/-- `likeOpRuntime.Eval` (after fix 203c4cc): subject, then pattern, then compile -/
def likeOp (G : Cfg N) : Out N → Out N → Out N
  | .err k s p, _ => .err k s p
  | .val _, .err k s p => .err k s p
  | .val a, .val b =>
    match G.re (a.text G.C) (b.text G.C) with
    | some r => .val (.bool r)
    | none => .err .runtime [] (some 1)

/-- `modintOpRuntime`: zero (after truncation) divisor is a runtime error (fix ee44ab4) -/
def modOp (C : Num N) (a b : N) : Out N :=
  if C.toInt b = 0 then .err .runtime [] none
  else .val (.num (C.ofInt (Int.tmod (C.toInt a) (C.toInt b))))

def binOp (G : Cfg N) (o : BinOp) (n1 n2 : Str) (o1 o2 : Out N) : Out N :=
  let C := G.C
  match o with
  | .plus => numOp (fun a b => .val (.num (C.add a b))) n1 n2 o1 o2
  | .minus => numOp (fun a b => .val (.num (C.sub a b))) n1 n2 o1 o2
  | .times => numOp (fun a b => .val (.num (C.mul a b))) n1 n2 o1 o2
  | .div => numOp (fun a b => .val (.num (C.div a b))) n1 n2 o1 o2
  | .divint => numOp (fun a b => .val (.num (C.floor (C.div a b)))) n1 n2 o1 o2
  | .modint => numOp (modOp C) n1 n2 o1 o2
  | .geq => cmpOp C (fun a b => C.le b a) (fun a b => !strLt a b) n1 n2 o1 o2
  | .gt => cmpOp C (fun a b => C.lt b a) (fun a b => strLt b a) n1 n2 o1 o2
  | .leq => cmpOp C (fun a b => C.le a b) (fun a b => !strLt b a) n1 n2 o1 o2
  | .lt => cmpOp C (fun a b => C.lt a b) (fun a b => strLt a b) n1 n2 o1 o2
  | .eq => genOp (fun a b => .bool (Val.eqv C a b)) o1 o2
  | .neq => genOp (fun a b => .bool (!Val.eqv C a b)) o1 o2
  | .and => boolOp (fun a b => .bool (a && b)) n1 n2 o1 o2
  | .or => boolOp (fun a b => .bool (a || b)) n1 n2 o1 o2
  | .like => likeOp G o1 o2
  | .hasprefix => strOp C (fun a b => .bool (b.isPrefixOf a)) o1 o2
  | .hassuffix => strOp C (fun a b => .bool (b.isSuffixOf a)) o1 o2
  | .isin => listOp (fun a vs => .bool (Vals.has C a vs)) n2 o1 o2
  | .notin =>
    (match listOp (fun a vs => .bool (Vals.has C a vs)) n2 o1 o2 with
     | .val (.bool r) => .val (.bool (!r))
     | r => r)
  -- an assignment inside an expression is outside the fragment (the driver rejects it);
  -- at the root it is handled by `evalTop`
  | .assign => genOp (fun _ _ => .null) o1 o2

def preOp (C : Num N) (p : PreOp) (n : Str) (o : Out N) : Out N :=
  match p with
  | .neg => numVal (fun a => .num (C.neg a)) n o
  | .pos => numVal (fun a => .num a) n o
  | .not => boolVal (fun a => .bool (!a)) n o

def atomVal (G : Cfg N) : Atom → Val N
  | .num _ bits => .num (G.C.ofBits bits)
  | .str s => .str s
  | .ident n => G.var n
  | .tru _ => .bool true
  | .fls _ => .bool false
  | .null _ => .null

mutual
def eval (G : Cfg N) : Expr → Out N
  | .atom a => .val (atomVal G a)
  | .list its =>
    (match evalItems G its with
     | .ok vs => .val (mkList vs)
     | .error (k, s, p) => .err k s p)
  | .bin o _ l r => binOp G o (opName l) (opName r) (eval G l) (eval G r)
  | .pre p _ x => preOp G.C p (opName x) (eval G x)
/-- `listValueRuntime.Eval`: left to right, the first error ends it -/
def evalItems (G : Cfg N) : Items → Except (ErrKind × Str × Option Nat) (Vals N)
  | .nil => .ok .nil
  | .cons e rest =>
    match eval G e with
    | .err k s p => .error (k, s, p)
    | .val v =>
      (match evalItems G rest with
       | .ok vs => .ok (.cons v vs)
       | .error x => .error x)
end

end Impl

/-! ## Spec: one direct definition per operator -/

namespace Spec
variable {N : Type}

/-- arithmetic needs two numbers; otherwise the error names the first operand that is
    not a number -/
def arith (f : N → N → Out N) (n1 n2 : Str) : Val N → Val N → Out N
  | .num a, .num b => f a b
  | .num _, _ => .err .notANumber n2 (some 1)
  | _, _ => .err .notANumber n1 (some 0)

/-- comparison: numeric on two numbers, otherwise lexical on the printed forms -/
def compare (C : Num N) (fn : N → N → Bool) (fs : Str → Str → Bool) : Val N → Val N → Out N
  | .num a, .num b => .val (.bool (fn a b))
  | a, b => .val (.bool (fs (a.text C) (b.text C)))

def logic (f : Bool → Bool → Bool) (n1 n2 : Str) : Val N → Val N → Out N
  | .bool a, .bool b => .val (.bool (f a b))
  | .bool _, _ => .err .notABoolean n2 (some 1)
  | _, _ => .err .notABoolean n1 (some 0)

def member (C : Num N) (neg : Bool) (n2 : Str) : Val N → Val N → Out N
  | a, .list _ _ vs => .val (.bool (neg != Vals.has C a vs))
  | _, _ => .err .notAList n2 (some 1)

/-- the meaning of `v1 o v2` for operand VALUES (`n1`, `n2`: how the operands are named) -/
def binSem (G : Cfg N) (o : BinOp) (n1 n2 : Str) (v1 v2 : Val N) : Out N :=
  let C := G.C
  match o with
  | .plus => arith (fun a b => .val (.num (C.add a b))) n1 n2 v1 v2
  | .minus => arith (fun a b => .val (.num (C.sub a b))) n1 n2 v1 v2
  | .times => arith (fun a b => .val (.num (C.mul a b))) n1 n2 v1 v2
  | .div => arith (fun a b => .val (.num (C.div a b))) n1 n2 v1 v2
  -- `//` : floor of the quotient
  | .divint => arith (fun a b => .val (.num (C.floor (C.div a b)))) n1 n2 v1 v2
  -- `%` : remainder of the operands truncated to integers; a zero divisor is an error
  -- `%` : remainder of the operands truncated to integers; a zero divisor is an error. Inside the
  -- int64 range this is `Int.tmod` on `int64(x)`; outside it the code's result is whatever the
  -- platform's conversion gives (known finding `mod-out-of-int64-range`), the reference is `wideMod`
  | .modint => arith (fun a b =>
      if C.inInt64 a && C.inInt64 b then
        (if C.toInt b = 0 then .err .runtime [] none
         else .val (.num (C.ofInt (Int.tmod (C.toInt a) (C.toInt b)))))
      else match C.wideMod a b with
        | some r => .val (.num r)
        | none => .err .runtime [] none) n1 n2 v1 v2
  | .geq => compare C (fun a b => C.le b a) (fun a b => !strLt a b) v1 v2
  | .gt => compare C (fun a b => C.lt b a) (fun a b => strLt b a) v1 v2
  | .leq => compare C (fun a b => C.le a b) (fun a b => !strLt b a) v1 v2
  | .lt => compare C (fun a b => C.lt a b) (fun a b => strLt a b) v1 v2
  | .eq => .val (.bool (Val.eqv C v1 v2))
  | .neq => .val (.bool (!Val.eqv C v1 v2))
  | .and => logic (fun a b => a && b) n1 n2 v1 v2
  | .or => logic (fun a b => a || b) n1 n2 v1 v2
  | .like =>
    (match G.re (v1.text C) (v2.text C) with
     | some r => .val (.bool r)
     | none => .err .runtime [] (some 1))
  | .hasprefix => .val (.bool ((v2.text C).isPrefixOf (v1.text C)))
  | .hassuffix => .val (.bool ((v2.text C).isSuffixOf (v1.text C)))
  | .isin => member C false n2 v1 v2
  | .notin => member C true n2 v1 v2
  | .assign => .val .null

def preSem (C : Num N) (p : PreOp) (n : Str) : Val N → Out N
  | v =>
    match p, v with
    | .neg, .num a => .val (.num (C.neg a))
    | .pos, .num a => .val (.num a)
    | .not, .bool b => .val (.bool (!b))
    | .not, _ => .err .notABoolean n (some 0)
    | _, _ => .err .notANumber n (some 0)

mutual
/-- operands are evaluated left to right, an error of an operand is the result (every
    operator is strict in both operands), otherwise the operator's meaning applies -/
def eval (G : Cfg N) : Expr → Out N
  | .atom a => .val (Impl.atomVal G a)
  | .list its =>
    (match evalItems G its with
     | .ok vs => .val (mkList vs)
     | .error (k, s, p) => .err k s p)
  | .bin o _ l r =>
    (match eval G l with
     | .err k s p => .err k s p
     | .val v1 =>
       (match eval G r with
        | .err k s p => .err k s p
        | .val v2 => binSem G o (opName l) (opName r) v1 v2))
  | .pre p _ x =>
    (match eval G x with
     | .err k s p => .err k s p
     | .val v => preSem G.C p (opName x) v)
def evalItems (G : Cfg N) : Items → Except (ErrKind × Str × Option Nat) (Vals N)
  | .nil => .ok .nil
  | .cons e rest =>
    match eval G e with
    | .err k s p => .error (k, s, p)
    | .val v =>
      (match evalItems G rest with
       | .ok vs => .ok (.cons v vs)
       | .error x => .error x)
end

/-! ### which errors are admissible

The property demands "a runtime error that names the operand": when several operands of an
operator are of the wrong kind or fail to evaluate, an error about ANY of them qualifies (which
one is reported depends on the order in which the interpreter happens to evaluate and check). -/

abbrev Err := ErrKind × Str × Option Nat

def ownLeft (o : BinOp) (n1 : Str) : Val N → List Err
  | v =>
    match o, v with
    | .plus, .num _ | .minus, .num _ | .times, .num _ | .div, .num _ | .divint, .num _ | .modint, .num _ => []
    | .plus, _ | .minus, _ | .times, _ | .div, _ | .divint, _ | .modint, _ => [(.notANumber, n1, some 0)]
    | .and, .bool _ | .or, .bool _ => []
    | .and, _ | .or, _ => [(.notABoolean, n1, some 0)]
    | _, _ => []

/-- for the right operand of and/or/in/notin both attachments are admissible here (the one the code
    uses, child 0, is the known finding `error-node-left-operand`) -/
def ownRight (o : BinOp) (n2 : Str) : Val N → List Err
  | v =>
    match o, v with
    | .plus, .num _ | .minus, .num _ | .times, .num _ | .div, .num _ | .divint, .num _ | .modint, .num _ => []
    | .plus, _ | .minus, _ | .times, _ | .div, _ | .divint, _ | .modint, _ => [(.notANumber, n2, some 1)]
    | .and, .bool _ | .or, .bool _ => []
    | .and, _ | .or, _ => [(.notABoolean, n2, some 1), (.notABoolean, n2, some 0)]
    | .isin, .list _ _ _ | .notin, .list _ _ _ => []
    | .isin, _ | .notin, _ => [(.notAList, n2, some 1), (.notAList, n2, some 0)]
    | _, _ => []

/-- errors of the operator itself on two operand VALUES of the right kinds -/
def ownBoth (G : Cfg N) (o : BinOp) (v1 v2 : Val N) : List Err :=
  match o, v1, v2 with
  | .modint, .num a, .num b =>
    if G.C.inInt64 a && G.C.inInt64 b then (if G.C.toInt b = 0 then [(.runtime, [], none)] else [])
    else (match G.C.wideMod a b with | some _ => [] | none => [(.runtime, [], none)])
  | .like, a, b => (match G.re (a.text G.C) (b.text G.C) with | some _ => [] | none => [(.runtime, [], some 1)])
  | _, _, _ => []

mutual
/-- all admissible errors of a tree (empty iff the reference evaluation yields a value) -/
def errSet (G : Cfg N) : Expr → List Err
  | .atom _ => []
  | .list its => errSetItems G its
  | .bin o _ l r =>
    errSet G l ++ errSet G r ++
    (match eval G l, eval G r with
     | .val v1, .val v2 => ownLeft o (opName l) v1 ++ ownRight o (opName r) v2 ++ ownBoth G o v1 v2
     | .val v1, .err _ _ _ => ownLeft o (opName l) v1
     | .err _ _ _, .val v2 => ownRight o (opName r) v2
     | .err _ _ _, .err _ _ _ => [])
  | .pre p _ x =>
    errSet G x ++
    (match eval G x with
     | .val v =>
       (match preSem G.C p (opName x) v with
        | .err k s q => [(k, s, q)]
        | .val _ => [])
     | .err _ _ _ => [])
def errSetItems (G : Cfg N) : Items → List Err
  | .nil => []
  | .cons e rest => errSet G e ++ errSetItems G rest
end

mutual
/-- every `%` in the tree is applied (per the reference evaluation) to operands inside the int64
    range, or to operands that are not both numbers -/
def modInRange (G : Cfg N) : Expr → Bool
  | .atom _ => true
  | .list its => modInRangeItems G its
  | .bin o _ l r =>
    modInRange G l && modInRange G r &&
    (match o, eval G l, eval G r with
     | .modint, .val (.num a), .val (.num b) => G.C.inInt64 a && G.C.inInt64 b
     | _, _, _ => true)
  | .pre _ _ x => modInRange G x
def modInRangeItems (G : Cfg N) : Items → Bool
  | .nil => true
  | .cons e rest => modInRange G e && modInRangeItems G rest
end

end Spec

end Ecal.Expr
