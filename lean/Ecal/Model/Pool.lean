/-!
# Model of `engine/pool/threadpool.go` — the thread pool as a transition system

Two layers.

* **Per-worker LTS** (`State`, `step`): every worker goroutine has a program counter
  (`PC`) that follows `ThreadPoolWorker.run` / `ThreadPool.getTask` / `idleTask.Run`
  statement by statement (one transition = one critical section or one operation on
  the condition variable). The queue, the list of all tasks ever added and of the
  finished ones carry task identities. `step` is a *function* of state and event; an
  event names the acting worker and the values it observed, so the same definition is
  the object of the proofs and the validator of traces recorded from the real pool
  (`Drivers/C09.lean`).
* **Counting abstraction** (`CState`, `cstep`): workers are symmetric, so the
  protocol invariants only need *how many* workers are at each program point.
  `cstep` runs on the same events (ignoring identities); `sim_step` shows that `abs`
  commutes with every step, hence every invariant of the counting system holds of
  the per-worker system (`Props/C09.lean`).

Representation choices (fidelity notes):

* `workerMap` / `workerIdleMap` are functions of the program counters: a worker is in
  `workerMap` from its creation (`SetWorkerCount` inserts it under the map lock before
  the goroutine can pass `getTask`) until the deferred `delete` (`PC.gone`); it is in
  `workerIdleMap` exactly between the insert after `getTask` returned the idle task
  (`regIdle`) and the delete after `idleTask.Run` returned (`unregIdle`).
* The lock `L` of `newTaskCond` has no field: it is held iff some thread is at a
  program point between `L.Lock()` and `L.Unlock()` / `Wait()`; acquiring requires
  that there is none (`lockFree`).
* `cond.Wait` = atomically (join the waiters; release `L`); a woken waiter has to
  re-acquire `L` (`wRelock`). `Signal` wakes one waiter (the event names which: the
  theorems hold for any choice), `Broadcast` all.
* Callers are anonymous: `AddTask` = `aPush; aLock; aSignal`; `SetWorkerCount` up =
  `swcUp n` (one critical section), down = `swcDown k; swcLock; swcBcast`; `JoinAll`
  = `joinKill` + polling; the unlocked `Broadcast` of the polling loops of `WaitAll`,
  `JoinAll`, `SetWorkerCount(…, true)` = `bcast`, possible at any time. The values a
  caller computes from stale reads (`workerKill = workerCount - count`) are event
  parameters, i.e. over-approximated by *any* value.
* `Variant` selects the protocol before the repair df51b96 (no predicate re-check,
  `Signal` without `L`) — kept as the negative witness.
-/
namespace Ecal.Pool

abbrev Task := Nat

/-- program counter of a worker goroutine -/
inductive PC where
  | head                  -- loop head of `run`: about to enter `getTask` (kill check)
  | chk (idleOk : Bool)   -- passed the kill check (`idleOk = false`: workerKill was -1); about to `Pop`
  | run (t : Task)        -- popped `t`, running it
  | noTask                -- `Pop` returned nil, got the idle task; about to insert into workerIdleMap
  | idleReg               -- in workerIdleMap; about to `L.Lock()`
  | hasL                  -- holds L; about to read `queue.Size()`
  | readQ (pending : Bool)-- holds L; read the queue size; about to read workerKill
  | readK (zero : Bool)   -- holds L; read workerKill FIRST (the two re-reads are separate sections of queueLock /
                          -- workerMapLock under L: either order; the decision uses the value read here); about
                          -- to read the queue size
  | willWait              -- holds L; predicate said "nothing to do"; about to `Wait()`
  | waiting               -- inside `Wait()`, L released, among the waiters
  | woken                 -- notified; has to re-acquire L
  | unlocking             -- holds L; about to return from `idleTask.Run` (deferred `L.Unlock()`)
  | unreg                 -- L released; about to delete from workerIdleMap
  | drained               -- workerKill was -1 and `Pop` returned nil; about to re-check workerKill under workerMapLock
  | exiting               -- `getTask` returned nil (workerExiting counted); about to delete from workerMap (deferred)
  | gone                  -- deleted from workerMap, goroutine ended
  deriving DecidableEq, Repr, Inhabited

/-- program points without payload -/
inductive Cls where
  | head | chkT | chkF | run | noTask | idleReg | hasL | readQT | readQF | readKT | willWait | waiting
  | woken | unlocking | unreg | drained | exiting | gone
  deriving DecidableEq, Repr

def PC.cls : PC → Cls
  | .head => .head | .chk true => .chkT | .chk false => .chkF | .run _ => .run | .noTask => .noTask
  | .idleReg => .idleReg | .hasL => .hasL | .readQ true => .readQT | .readQ false => .readQF
  | .readK true => .readKT | .readK false => .readQT   -- read workerKill ≠ 0: will not wait, like `readQ true`
  | .willWait => .willWait | .waiting => .waiting | .woken => .woken
  | .unlocking => .unlocking | .unreg => .unreg | .drained => .drained | .exiting => .exiting | .gone => .gone

def PC.task? : PC → Option Task
  | .run t => some t
  | _ => none

/-- protocol variant: the code as it is (`repaired`) or as it was before df51b96 -/
structure Variant where
  recheck : Bool        -- idleTask.Run re-checks queue size and kill counter under L
  signalLocked : Bool   -- AddTask takes L around Signal
  deriving DecidableEq, Repr

def repaired : Variant := ⟨true, true⟩
def pristine : Variant := ⟨false, false⟩

structure State where
  pcs     : List PC      -- worker i (creation order) is at `pcs[i]`
  queue   : List Task    -- DefaultTaskQueue (FIFO)
  added   : List Task    -- every task pushed so far (ghost)
  done    : List Task    -- every task whose Run returned (ghost)
  kill    : Int          -- workerKill
  pushed  : Nat          -- AddTask calls after Push (queueLock released), before L.Lock
  adderL  : Nat          -- AddTask calls holding L (0/1)
  swcPend : Nat          -- SetWorkerCount(down) calls after `workerKill = …`, before L.Lock
  swcL    : Nat          -- SetWorkerCount(down) calls holding L (0/1)
  deriving DecidableEq, Repr

def init : State := ⟨[], [], [], [], 0, 0, 0, 0, 0⟩

inductive Event where
  -- worker `i`
  | killExit (i : Nat)          -- getTask: workerKill > 0 → workerKill--, return nil
  | killPass (i : Nat)          -- getTask: workerKill ≤ 0
  | pop (i : Nat) (t : Task)    -- Pop returned t
  | popNone (i : Nat)           -- Pop returned nil → idle task (or the drained check when workerKill was -1)
  | drainExit (i : Nat)         -- drained worker under workerMapLock: workerKill still -1 → workerExiting++, return nil;
                                -- otherwise (the JoinAll was overridden by a SetWorkerCount) → idle task
  | finish (i : Nat)            -- task.Run returned
  | regIdle (i : Nat)
  | wLock (i : Nat)             -- idleTask.Run: L.Lock()
  | readQ (i : Nat)             -- pending := queue.Size()
  | readKill (i : Nat)          -- kill := workerKill; decide
  | wWait (i : Nat)             -- cond.Wait(): join waiters, release L
  | wRelock (i : Nat)           -- woken: re-acquire L, return from idleTask.Run
  | wRecheck (i : Nat)          -- woken: re-acquire L and re-check the predicate (the sync.Cond wait-loop idiom;
                                -- the code as it is returns instead — both are covered)
  | wUnlock (i : Nat)           -- deferred L.Unlock()
  | unregIdle (i : Nat)
  | exit (i : Nat)              -- deferred delete from workerMap
  -- callers
  | aPush (t : Task)            -- AddTask: Push under queueLock
  | aLock                       -- AddTask: L.Lock()
  | aSignal (w : Option Nat)    -- AddTask: Signal (wakes waiter w / nobody is waiting); L.Unlock()
  | swcUp (n : Nat)             -- SetWorkerCount up: workerKill = 0, n new workers
  | swcDown (k : Nat)           -- SetWorkerCount down: workerKill = k+1
  | swcSet (count : Nat)        -- SetWorkerCount after the resize-race repair: one critical section computing
                                -- the delta from the workers not yet told to exit
  | swcLock                     -- … L.Lock()
  | swcBcast                    -- … Broadcast(); L.Unlock()
  | joinKill                    -- JoinAll: workerKill = -1
  | bcast                       -- Broadcast() without L (polling loops of WaitAll/JoinAll/SetWorkerCount)
  deriving DecidableEq, Repr

/-- number of workers at a program point -/
def cntOf (pcs : List PC) (c : Cls) : Nat := pcs.countP (fun p => p.cls = c)

/-- workers between L.Lock() and L.Unlock()/Wait() -/
def holders (f : Cls → Nat) : Nat :=
  f .hasL + f .readQT + f .readQF + f .readKT + f .willWait + f .unlocking

/-- workers that have not been told to exit (not `exiting`, not `gone`):
    `len(workerMap) - workerExiting` -/
def clive (f : Cls → Nat) : Nat :=
  f .head + f .chkT + f .chkF + f .run + f .noTask + f .idleReg + f .hasL + f .readQT + f .readQF + f .willWait
    + f .waiting + f .woken + f .unlocking + f .unreg + f .drained + f .readKT

def State.live (s : State) : Nat := clive (cntOf s.pcs)

def lockFree (s : State) : Bool :=
  s.adderL = 0 ∧ s.swcL = 0 ∧ holders (cntOf s.pcs) = 0

def wakeOne (pcs : List PC) (i : Nat) : List PC := pcs.set i .woken

def wakeAll (pcs : List PC) : List PC := pcs.map fun p => if p = .waiting then .woken else p

/-- worker `i` moves from program point `p` (checked) to `q` -/
def State.goto (s : State) (i : Nat) (q : PC) : State := { s with pcs := s.pcs.set i q }

open PC in
def step (v : Variant) (s : State) : Event → Option State
  | .killExit i =>
    match s.pcs[i]? with
    | some head => if 0 < s.kill then some { s.goto i exiting with kill := s.kill - 1 } else none
    | _ => none
  | .killPass i =>
    match s.pcs[i]? with
    | some head => if 0 < s.kill then none else some (s.goto i (chk (s.kill != -1)))
    | _ => none
  | .pop i t =>
    match s.pcs[i]?, s.queue with
    -- any queued task: the pool works on an abstract TaskQueue (DefaultTaskQueue is FIFO — the driver
    -- checks that —, engine.TaskQueue picks by priority / at random)
    | some (chk _), _ => if t ∈ s.queue then some { s.goto i (run t) with queue := s.queue.erase t } else none
    | _, _ => none
  | .popNone i =>
    match s.pcs[i]?, s.queue with
    | some (chk ok), [] => some (s.goto i (if ok then noTask else drained))
    | _, _ => none
  | .drainExit i =>
    match s.pcs[i]? with
    | some drained => some (s.goto i (if s.kill == -1 then exiting else noTask))
    | _ => none
  | .finish i =>
    match s.pcs[i]? with
    | some (run t) => some { s.goto i head with done := t :: s.done }
    | _ => none
  | .regIdle i =>
    match s.pcs[i]? with
    | some noTask => some (s.goto i idleReg)
    | _ => none
  | .wLock i =>
    match s.pcs[i]? with
    | some idleReg => if lockFree s then some (s.goto i (if v.recheck then hasL else willWait)) else none
    | _ => none
  | .readQ i =>
    match s.pcs[i]? with
    | some hasL => some (s.goto i (readQ (!s.queue.isEmpty)))
    | some (readK z) => some (s.goto i (if s.queue.isEmpty && z then willWait else unlocking))
    | _ => none
  | .readKill i =>
    match s.pcs[i]? with
    | some (readQ p) => some (s.goto i (if !p && s.kill == 0 then willWait else unlocking))
    | some hasL => some (s.goto i (readK (s.kill == 0)))
    | _ => none
  | .wWait i =>
    match s.pcs[i]? with
    | some willWait => some (s.goto i waiting)
    | _ => none
  | .wRelock i =>
    match s.pcs[i]? with
    | some woken => if lockFree s then some (s.goto i unlocking) else none
    | _ => none
  | .wRecheck i =>
    match s.pcs[i]? with
    | some woken => if lockFree s then some (s.goto i hasL) else none
    | _ => none
  | .wUnlock i =>
    match s.pcs[i]? with
    | some unlocking => some (s.goto i unreg)
    | _ => none
  | .unregIdle i =>
    match s.pcs[i]? with
    | some unreg => some (s.goto i head)
    | _ => none
  | .exit i =>
    match s.pcs[i]? with
    | some exiting => some (s.goto i gone)
    | _ => none
  | .aPush t => some { s with queue := s.queue ++ [t], added := t :: s.added, pushed := s.pushed + 1 }
  | .aLock =>
    if v.signalLocked && 0 < s.pushed && lockFree s then some { s with pushed := s.pushed - 1, adderL := 1 }
    else none
  | .aSignal w =>
    let ready : Bool := if v.signalLocked then s.adderL = 1 else 0 < s.pushed
    let s' : State := if v.signalLocked then { s with adderL := 0 } else { s with pushed := s.pushed - 1 }
    if ready then
      match w with
      | none => if cntOf s.pcs .waiting = 0 then some s' else none
      | some i =>
        match s.pcs[i]? with
        | some waiting => some (s'.goto i woken)
        | _ => none
    else none
  | .swcUp n => some { s with kill := 0, pcs := s.pcs ++ List.replicate n head }
  | .swcDown k => some { s with kill := (k : Int) + 1, swcPend := s.swcPend + 1 }
  | .swcSet c =>
    if s.live < c then some { s with kill := 0, pcs := s.pcs ++ List.replicate (c - s.live) head }
    else if s.live = c then some { s with kill := min s.kill 0 }  -- JoinAll's -1 stays
    else some { s with kill := ((s.live - c : Nat) : Int), swcPend := s.swcPend + 1 }
  | .swcLock =>
    if 0 < s.swcPend && lockFree s then some { s with swcPend := s.swcPend - 1, swcL := 1 } else none
  | .swcBcast =>
    if s.swcL = 1 then some { s with swcL := 0, pcs := wakeAll s.pcs } else none
  | .joinKill => some { s with kill := -1 }
  | .bcast => some { s with pcs := wakeAll s.pcs }

def runFrom (v : Variant) (s : State) (es : List Event) : Option State := es.foldlM (step v) s

/-- states reachable in the protocol variant `v` from the empty pool -/
def Reachable (v : Variant) (s : State) : Prop := ∃ es, runFrom v init es = some s

/-! ### observables of a state -/

/-- tasks being run -/
def State.running (s : State) : List Task := s.pcs.filterMap PC.task?

/-- `len(workerMap)` -/
def State.workerCount (s : State) : Nat := s.pcs.length - cntOf s.pcs .gone

def idleRegistered (f : Cls → Nat) : Nat :=
  f .idleReg + f .hasL + f .readQT + f .readQF + f .readKT + f .willWait + f .waiting + f .woken + f .unlocking + f .unreg

/-- `len(workerIdleMap)` -/
def State.idleCount (s : State) : Nat := idleRegistered (cntOf s.pcs)


/-- exit condition of WaitAll's loop, evaluated on its snapshot (both locks held) -/
def waitAllGuard (s : State) : Bool :=
  s.workerCount = 0 || (s.workerCount = s.idleCount && s.queue.length = 0)

/-- exit condition of JoinAll's loop (snapshot under both locks). Each iteration of the loop also
    re-asserts `workerKill = -1` (event `joinKill`) when a SetWorkerCount has overwritten it. -/
def joinAllGuard (s : State) : Bool := s.workerCount = 0 && s.queue.length = 0

/-- pool-internal events of worker `i`: what the goroutine can do on its own -/
def workerEvents (i : Nat) (s : State) : List Event :=
  [.killExit i, .killPass i, .popNone i, .finish i, .regIdle i, .wLock i, .readQ i, .readKill i,
   .wWait i, .wRelock i, .wRecheck i, .wUnlock i, .unregIdle i, .exit i, .drainExit i] ++ (s.queue.head?.map (Event.pop i)).toList

/-- pool-internal events: worker steps and the remaining steps of calls already in
    flight (`AddTask` after its push, `SetWorkerCount` after setting workerKill). No
    new call, no polling broadcast. Signals: to any waiter / to nobody. -/
def internalEvents (s : State) : List Event :=
  (List.range s.pcs.length).flatMap (fun i => workerEvents i s ++ [.aSignal (some i)]) ++
  [.aLock, .aSignal none, .swcLock, .swcBcast]

/-! ## counting abstraction -/

structure CState where
  cnt     : Cls → Nat
  queue   : Nat
  kill    : Int
  pushed  : Nat
  adderL  : Nat
  swcPend : Nat
  swcL    : Nat

def abs (s : State) : CState :=
  ⟨cntOf s.pcs, s.queue.length, s.kill, s.pushed, s.adderL, s.swcPend, s.swcL⟩

def cinit : CState := ⟨fun _ => 0, 0, 0, 0, 0, 0, 0⟩

/-- one worker moves from program point `a` to `b` -/
def move (a b : Cls) (f : Cls → Nat) : Cls → Nat :=
  fun c => f c - (if c = a then 1 else 0) + (if c = b then 1 else 0)

def cwakeAll (f : Cls → Nat) : Cls → Nat :=
  fun c => if c = .waiting then 0 else if c = .woken then f .woken + f .waiting else f c

def caddHead (n : Nat) (f : Cls → Nat) : Cls → Nat :=
  fun c => if c = .head then f c + n else f c

def clockFree (s : CState) : Bool := s.adderL = 0 ∧ s.swcL = 0 ∧ holders s.cnt = 0

def CState.mv (s : CState) (a b : Cls) : Option CState :=
  if 0 < s.cnt a then some { s with cnt := move a b s.cnt } else none

/-- abstract event: the concrete event plus the facts about the acting worker that the
    abstraction forgets -/
inductive CEvent where
  | killExit | killPass | pop (ok : Bool) | popNone (ok : Bool) | finish | regIdle | wLock | readQ
  | readKill (p : Bool) | readKillFirst | readQSecond | wWait | wRelock | wRecheck | wUnlock | unregIdle | exit | drainExit
  | aPush | aLock | aSignal (some : Bool) | swcUp (n : Nat) | swcDown (k : Nat) | swcSet (c : Nat) | swcLock | swcBcast
  | joinKill | bcast
  deriving DecidableEq, Repr

/-- the repaired protocol on counters -/
def cstep (s : CState) : CEvent → Option CState
  | .killExit => if 0 < s.kill then ({ s with kill := s.kill - 1 } : CState).mv .head .exiting else none
  | .killPass => if 0 < s.kill then none else s.mv .head (if s.kill != -1 then .chkT else .chkF)
  | .pop ok =>
    if 0 < s.queue then ({ s with queue := s.queue - 1 } : CState).mv (if ok then .chkT else .chkF) .run else none
  | .popNone ok =>
    if s.queue = 0 then s.mv (if ok then .chkT else .chkF) (if ok then .noTask else .drained) else none
  | .drainExit => s.mv .drained (if s.kill == -1 then .exiting else .noTask)
  | .finish => s.mv .run .head
  | .regIdle => s.mv .noTask .idleReg
  | .wLock => if clockFree s then s.mv .idleReg .hasL else none
  | .readQ => s.mv .hasL (if 0 < s.queue then .readQT else .readQF)
  | .readKill p =>
    s.mv (if p then .readQT else .readQF) (if !p && s.kill == 0 then .willWait else .unlocking)
  | .readKillFirst => s.mv .hasL (if s.kill == 0 then .readKT else .readQT)
  | .readQSecond => s.mv .readKT (if s.queue = 0 then .willWait else .unlocking)
  | .wWait => s.mv .willWait .waiting
  | .wRelock => if clockFree s then s.mv .woken .unlocking else none
  | .wRecheck => if clockFree s then s.mv .woken .hasL else none
  | .wUnlock => s.mv .unlocking .unreg
  | .unregIdle => s.mv .unreg .head
  | .exit => s.mv .exiting .gone
  | .aPush => some { s with queue := s.queue + 1, pushed := s.pushed + 1 }
  | .aLock => if 0 < s.pushed && clockFree s then some { s with pushed := s.pushed - 1, adderL := 1 } else none
  | .aSignal w =>
    if s.adderL = 1 then
      if w then ({ s with adderL := 0 } : CState).mv .waiting .woken
      else if s.cnt .waiting = 0 then some { s with adderL := 0 } else none
    else none
  | .swcUp n => some { s with kill := 0, cnt := caddHead n s.cnt }
  | .swcDown k => some { s with kill := (k : Int) + 1, swcPend := s.swcPend + 1 }
  | .swcSet c =>
    if clive s.cnt < c then some { s with kill := 0, cnt := caddHead (c - clive s.cnt) s.cnt }
    else if clive s.cnt = c then some { s with kill := min s.kill 0 }
    else some { s with kill := ((clive s.cnt - c : Nat) : Int), swcPend := s.swcPend + 1 }
  | .swcLock => if 0 < s.swcPend && clockFree s then some { s with swcPend := s.swcPend - 1, swcL := 1 } else none
  | .swcBcast => if s.swcL = 1 then some { s with swcL := 0, cnt := cwakeAll s.cnt } else none
  | .joinKill => some { s with kill := -1 }
  | .bcast => some { s with cnt := cwakeAll s.cnt }

/-- the abstract event of a concrete event in a state -/
def absEvent (s : State) : Event → CEvent
  | .killExit _ => .killExit | .killPass _ => .killPass
  | .pop i _ => .pop (match s.pcs[i]? with | some (.chk ok) => ok | _ => true)
  | .popNone i => .popNone (match s.pcs[i]? with | some (.chk ok) => ok | _ => true)
  | .finish _ => .finish | .regIdle _ => .regIdle | .wLock _ => .wLock
  | .readQ i => (match s.pcs[i]? with | some (.readK true) => .readQSecond | some (.readK false) => .readKill true | _ => .readQ)
  | .readKill i => (match s.pcs[i]? with | some (.readQ p) => .readKill p | some .hasL => .readKillFirst | _ => .readKill true)
  | .wWait _ => .wWait | .wRelock _ => .wRelock | .wRecheck _ => .wRecheck | .wUnlock _ => .wUnlock
  | .unregIdle _ => .unregIdle | .exit _ => .exit | .drainExit _ => .drainExit
  | .aPush _ => .aPush | .aLock => .aLock | .aSignal w => .aSignal w.isSome
  | .swcUp n => .swcUp n | .swcDown k => .swcDown k | .swcSet c => .swcSet c | .swcLock => .swcLock | .swcBcast => .swcBcast
  | .joinKill => .joinKill | .bcast => .bcast

def CReachable (c : CState) : Prop := ∃ es : List CEvent, es.foldlM cstep cinit = some c

end Ecal.Pool
