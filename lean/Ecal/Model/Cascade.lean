/-!
# Cascade — transition system of one event cascade (one `RootMonitor`)

Model of `engine/monitor.go` (RootMonitor: `unfinished`, `errors`, `descendantCreated`,
`descendantFailed`, `descendantFinished`, `AllErrors`), `engine/processor.go`
(`AddEvent`, `AddEventAndWait`, the rule loop of `ProcessEvent`),
`engine/taskqueue.go` (`Task.Run`, `Task.HandleError`, the observer registered by
`TaskQueue.Push`, the clean-up of empty queues in `Pop`) and
`engine/pubsub/eventpump.go` (observer table per (message, root), snapshot in
`PostEvent`, `RemoveObservers`).

Monitors are numbered in creation order (`0` = the root monitor); a monitor's
position in the protocol is its `Phase`. Every step of the Go code that is atomic
with respect to the root's lock is one `Event`; `step` is executable (used by the
driver to compute expected results and to replay recorded traces) and is the
object of the theorems in `Ecal.Props.C02`. Sequential consistency is assumed
(the Go memory model is not modelled).
-/
namespace Ecal.Cascade

/-- where a monitor is in the protocol -/
inductive Phase where
  /-- created (`NewRootMonitor` / `NewChildMonitor`), not yet handed to `AddEvent` -/
  | fresh
  /-- `Activate`d, its task is in the root's queue -/
  | queued
  /-- task taken by worker `w`, `ProcessEvent` is executing the rules in `todo` -/
  | running (w : Nat)
  /-- `Task.Run` returned a `TaskError`, `HandleError` has not yet called `SetErrors` -/
  | failing (w : Nat)
  /-- `SetErrors` done (error attached, monitor in `RootMonitor.errors`), `Finish` not yet called -/
  | errSet (w : Nat)
  /-- `Finish` done, the root-monitor error observer is running on worker `w` -/
  | notifying (w : Nat)
  /-- finished, the task (if any) is over -/
  | done
  deriving DecidableEq, Repr

/-- `monitorBase.finished` -/
def Phase.finished : Phase → Bool
  | .notifying _ | .done => true
  | _ => false

/-- the worker occupied by the monitor's task -/
def Phase.worker : Phase → Option Nat
  | .running w | .failing w | .errSet w | .notifying w => some w
  | _ => none

structure Mon where
  parent   : Option Nat
  phase    : Phase
  skipped  : Bool := false
  /-- rules of the trigger sequence whose action has not returned; while `running`
      the head is the action being executed -/
  todo     : List Nat := []
  /-- rules whose action returned an error (history; = the local `errors` map of `ProcessEvent`) -/
  failed   : List Nat := []
  /-- `monitorBase.Err` (keys of `TaskError.ErrorMap`) -/
  err      : Option (List Nat) := none
  /-- the monitor's id is a key of `RootMonitor.errors` -/
  inErrors : Bool := false
  deriving DecidableEq, Repr

inductive Obs where
  | wait | handler | queue
  deriving DecidableEq, Repr

structure State where
  workers      : Nat
  /-- `SetFailOnFirstErrorInTriggerSequence` -/
  failFirst    : Bool
  mons         : List Mon
  /-- `RootMonitor.unfinished` -/
  unfinished   : Nat
  /-- `descendantFinished` calls that saw zero and have not yet called `PostEvent` -/
  postPending  : Nat := 0
  /-- `PostEvent(MessageRootMonitorFinished, root)` executed (snapshot taken) -/
  posted       : Nat := 0
  /-- observer table of (MessageRootMonitorFinished, this root) -/
  obsWait      : Nat := 0
  obsHandler   : Nat := 0
  obsQueue     : Nat := 0
  /-- `TaskQueue.queues` has an entry for this root -/
  hasQueue     : Bool := false
  /-- callbacks of `PostEvent` snapshots which have not run yet -/
  dWait        : Nat := 0
  dHandler     : Nat := 0
  dQueue       : Nat := 0
  /-- `AddEventAndWait` registered its observer -/
  waiting      : Bool := false
  /-- the finish-handler observer was registered (`AddEvent` of a triggering root event) -/
  handlerReg   : Bool := false
  /-- number of `wg.Done()` calls -/
  released     : Nat := 0
  /-- `AddEventAndWait` returned -/
  waitReturned : Bool := false
  /-- number of finish handler invocations -/
  handlerCalls : Nat := 0
  /-- an assertion of the Go code failed ("Finished monitor left events behind") -/
  panicked     : Bool := false
  deriving DecidableEq, Repr

inductive Event where
  /-- `AddEventAndWait`: the wait observer is added (before `AddEvent`) -/
  | register
  /-- `AddEvent` of a triggering event with the root monitor: the finish-handler observer is added
      (before `Activate` and `pool.AddTask`) -/
  | regHandler
  /-- `AddEvent(event, m)`: `trig` = `IsTriggering`; `rules` = the rules `ProcessEvent` will
      execute for it, in order (distinct names). `trig = false`: `Skip` ⇒ `Finish`. `trig = true`:
      `Activate` + `pool.AddTask` (queue push); for the root monitor this comes after `regHandler`. -/
  | addEvent (m : Nat) (trig : Bool) (rules : List Nat)
  /-- `p.NewChildMonitor` — by the action executing under `p` -/
  | newChild (p : Nat)
  /-- worker `w` takes the task of `m` from the queue -/
  | pop (w m : Nat)
  /-- the action at the head of `m`'s trigger sequence returns -/
  | ruleReturns (m : Nat) (ok : Bool)
  /-- `ProcessEvent` returned: `Finish` when there were no errors, else `Task.Run` returns the `TaskError` -/
  | taskDone (m : Nat)
  | setErrors (m : Nat)
  | errFinish (m : Nat)
  /-- the root-monitor error observer returned, `HandleError` is over -/
  | notified (m : Nat)
  /-- a `TaskQueue.Pop` removed this root's empty queue -/
  | dropQueue
  /-- `PostEvent` takes its snapshot of the observer table -/
  | post
  | observerRuns (o : Obs)
  /-- `wg.Wait()` returns -/
  | waitReturns
  /-- `RootMonitor.AllErrors()` by anybody at any time (see `allErrors`) -/
  | allErrors
  deriving DecidableEq, Repr

def init (workers : Nat) (failFirst : Bool) : State :=
  { workers, failFirst, mons := [{ parent := none, phase := .fresh }], unfinished := 1 }

def State.setMon (s : State) (i : Nat) (m : Mon) : State := { s with mons := s.mons.set i m }

/-- `descendantFinished`: decrement under the lock, remember to post when zero was reached -/
def finishOne (s : State) : State :=
  { s with unfinished := s.unfinished - 1,
           postPending := if s.unfinished = 1 then s.postPending + 1 else s.postPending }

/-- a task of this cascade is waiting in the queue -/
def State.anyQueued (s : State) : Bool := s.mons.any fun m => m.phase == .queued

/-- worker `w` is not occupied by a task of this cascade -/
def State.workerFree (s : State) (w : Nat) : Bool := s.mons.all fun m => m.phase.worker != some w

/-- `RemoveObservers(MessageRootMonitorFinished, root)` -/
def State.clearObs (s : State) : State := { s with obsWait := 0, obsHandler := 0, obsQueue := 0 }

def step (s : State) : Event → Option State
  | .register =>
    if s.waiting then none else
    match s.mons[0]? with
    | some r =>
      match r.phase with
      | .fresh => some { s with waiting := true, obsWait := s.obsWait + 1 }
      | _ => none
    | none => none
  | .regHandler =>
    if s.handlerReg then none else
    match s.mons[0]? with
    | some r =>
      match r.phase with
      | .fresh => some { s with handlerReg := true, obsHandler := s.obsHandler + 1 }
      | _ => none
    | none => none
  | .addEvent i trig rules =>
    match s.mons[i]? with
    | some m =>
      match m.phase with
      | .fresh =>
        if trig then
          -- the root's finish-handler observer is registered before the task is handed to the pool
          if rules.Nodup ∧ (i = 0 → s.handlerReg = true) then
            let s1 := s.setMon i { m with phase := .queued, todo := rules }
            some { s1 with obsQueue := if s1.hasQueue then s1.obsQueue else s1.obsQueue + 1,
                           hasQueue := true }
          else none
        else if i = 0 ∧ s.handlerReg = true then none   -- the non-triggering path registers nothing
        else some (finishOne (s.setMon i { m with phase := .done, skipped := true }))
      | _ => none
    | none => none
  | .newChild p =>
    match s.mons[p]? with
    | some m =>
      match m.phase, m.todo with
      | .running _, _ :: _ =>
        some { s with mons := s.mons ++ [{ parent := some p, phase := .fresh }],
                      unfinished := s.unfinished + 1 }
      | _, _ => none
    | none => none
  | .pop w i =>
    if w < s.workers ∧ s.workerFree w then
      match s.mons[i]? with
      | some m =>
        match m.phase with
        | .queued => some (s.setMon i { m with phase := .running w })
        | _ => none
      | none => none
    else none
  | .ruleReturns i ok =>
    match s.mons[i]? with
    | some m =>
      match m.phase, m.todo with
      | .running _, r :: rest =>
        some (s.setMon i { m with todo := if !ok && s.failFirst then [] else rest,
                                  failed := if ok then m.failed else m.failed ++ [r] })
      | _, _ => none
    | none => none
  | .taskDone i =>
    match s.mons[i]? with
    | some m =>
      match m.phase, m.todo with
      | .running w, [] =>
        if m.failed = [] then some (finishOne (s.setMon i { m with phase := .done }))
        else some (s.setMon i { m with phase := .failing w })
      | _, _ => none
    | none => none
  | .setErrors i =>
    match s.mons[i]? with
    | some m =>
      match m.phase with
      | .failing w => some (s.setMon i { m with phase := .errSet w, err := some m.failed, inErrors := true })
      | _ => none
    | none => none
  | .errFinish i =>
    match s.mons[i]? with
    | some m =>
      match m.phase with
      | .errSet w => some (finishOne (s.setMon i { m with phase := .notifying w }))
      | _ => none
    | none => none
  | .notified i =>
    match s.mons[i]? with
    | some m =>
      match m.phase with
      | .notifying _ => some (s.setMon i { m with phase := .done })
      | _ => none
    | none => none
  | .dropQueue =>
    if s.hasQueue ∧ s.anyQueued = false then some { s with hasQueue := false } else none
  | .post =>
    if s.postPending = 0 then none
    else some { s with postPending := s.postPending - 1, posted := s.posted + 1,
                       dWait := s.dWait + s.obsWait, dHandler := s.dHandler + s.obsHandler,
                       dQueue := s.dQueue + s.obsQueue }
  | .observerRuns .wait =>
    if s.dWait = 0 then none
    else some { s.clearObs with dWait := s.dWait - 1, released := s.released + 1 }
  | .observerRuns .handler =>
    if s.dHandler = 0 then none
    else some { s.clearObs with dHandler := s.dHandler - 1, handlerCalls := s.handlerCalls + 1 }
  | .observerRuns .queue =>
    if s.dQueue = 0 then none
    else some { s.clearObs with dQueue := s.dQueue - 1, panicked := s.panicked || s.anyQueued }
  | .waitReturns =>
    if 0 < s.released ∧ s.waitReturned = false then some { s with waitReturned := true } else none
  | .allErrors => some s

def run (s : State) (es : List Event) : Option State := es.foldlM step s

/-- the variant "finish-handler observer added AFTER `pool.AddTask`" (not the code; used as a negative
    witness): the root may be pushed without the handler, the handler is registered later -/
def stepLate (s : State) : Event → Option State
  | .regHandler =>
    if s.handlerReg then none else
    match s.mons[0]? with
    | some r => if r.phase = .fresh ∨ r.skipped then none
                else some { s with handlerReg := true, obsHandler := s.obsHandler + 1 }
    | none => none
  | .addEvent 0 true rules =>
    match s.mons[0]? with
    | some m =>
      match m.phase with
      | .fresh =>
        let s1 := s.setMon 0 { m with phase := .queued, todo := rules }
        some { s1 with obsQueue := if s1.hasQueue then s1.obsQueue else s1.obsQueue + 1, hasQueue := true }
      | _ => none
    | none => none
  | e => step s e

/-- reachable from the initial state of a cascade by any sequence of events -/
def Reachable (s : State) : Prop := ∃ workers failFirst es, run (init workers failFirst) es = some s

/-! ### the error report -/

/-- entries of `RootMonitor.errors` in ascending monitor id (the order `AllErrors` sorts into) -/
def reportFrom (i : Nat) : List Mon → List (Nat × Option (List Nat))
  | [] => []
  | m :: ms => (if m.inErrors then [(i, m.err)] else []) ++ reportFrom (i + 1) ms

/-- `AllErrors()` of the current code: reads `monitor.Err` of every entry directly.
    `none` in an entry = a nil `*TaskError` handed to the caller. -/
def allErrors (s : State) : List (Nat × Option (List Nat)) := reportFrom 0 s.mons

/-- `AllErrors()` before the repair (da28f66): `monitor.Errors()` asserts that the monitor is
    finished; `none` = the assertion panics (inside whichever goroutine called it). -/
def allErrorsAsserting (s : State) : Option (List (Nat × Option (List Nat))) :=
  if s.mons.all (fun m => !m.inErrors || m.phase.finished) then some (allErrors s) else none

/-- what the report has to be: one entry per monitor with at least one failed action, holding
    exactly the failed rules (defined from the history fields only) -/
def expectedFrom (i : Nat) : List Mon → List (Nat × Option (List Nat))
  | [] => []
  | m :: ms => (if m.failed = [] then [] else [(i, some m.failed)]) ++ expectedFrom (i + 1) ms

def expectedReport (s : State) : List (Nat × Option (List Nat)) := expectedFrom 0 s.mons

/-! ### classification of events, measure -/

/-- steps taken by the engine itself (workers, pump) as opposed to the code of an action
    (`newChild`, `addEvent`) or the adding goroutine (`register`, `waitReturns`) or a reader (`allErrors`) -/
def Event.internal : Event → Bool
  | .pop _ _ | .ruleReturns _ _ | .taskDone _ | .setErrors _ | .errFinish _ | .notified _
  | .post | .observerRuns _ | .dropQueue => true
  | _ => false

def Event.isPop : Event → Bool
  | .pop _ _ => true
  | _ => false

def Mon.weight (m : Mon) : Nat :=
  match m.phase with
  | .fresh => 0
  | .queued => m.todo.length + 6
  | .running _ => m.todo.length + 5
  | .failing _ => 4
  | .errSet _ => 3
  | .notifying _ => 1
  | .done => 0

def sumWeights : List Mon → Nat
  | [] => 0
  | m :: ms => m.weight + sumWeights ms

/-- decreases along every internal event (see `Props.C02.measure_decreases`): work left in the
    monitors + the post still to come with its callbacks + callbacks pending + the queue entry -/
def workLeft (s : State) : Nat :=
  sumWeights s.mons + (if s.posted = 0 then 2 + s.obsWait + s.obsHandler + s.obsQueue else 0)
    + s.dWait + s.dHandler + s.dQueue + (if s.hasQueue then 1 else 0)

end Ecal.Cascade
