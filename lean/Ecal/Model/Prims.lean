/-!
C06 — the Go operations that can panic, as total functions that return `panic` exactly when Go
would, the GUARDED call sites as the current code of /repo has them (after ee44ab4, 1d04360), an
explicitly UNGUARDED copy of the repaired ones (the code before the repair; negative witnesses), the
argument checking of the builtins `len add del concat range raise type new`, the kind checks of the
sink attributes and the state matcher of the rule index.

Numbers: a builtin only ever converts a number argument with `int(x)` and `int(x+1)`; a number is
therefore represented by these two conversion results (`num i i1`).  For every float64 with
`0 ≤ int(x) < 2^53`, `int(x+1) = int(x)+1` (`PVal.NumOK`); outside that range Go's conversion is
implementation defined but never panics, so `i`/`i1` are arbitrary there.
Strings carry whether `strconv.ParseFloat` accepts them (AssertNumParam falls back to parsing the
printed value; the printed form of null / bool / list / map / function is never a number).
Slices: capacity = length (a slice expression that Go accepts because of spare capacity is a panic
here: the guards are shown to be sufficient even without spare capacity).
-/
namespace Ecal.Prims

inductive E where
  | err (kind : String)        -- an ECAL error value (runtime error type / plain error)
  | iter                       -- ErrIsIterator travelling with the current value
  | panic (site : String)      -- a Go runtime panic
  deriving Repr, DecidableEq

abbrev R := Except E

def isPanic {α : Type} : R α → Bool
  | .error (.panic _) => true
  | _ => false

inductive PVal where
  | null | bool (b : Bool)
  | num (i i1 : Int)                                   -- int(x), int(x+1)
  | str (s : String) (asNum : Option (Int × Int))      -- ParseFloat result, if it parses
  | list (xs : List PVal) | map (kvs : List (PVal × PVal)) | func (id : Nat)
  deriving Repr, Inhabited

inductive Kind where
  | null | bool | num | str | list | map | func
  deriving Repr, DecidableEq

def PVal.kind : PVal → Kind
  | .null => .null | .bool _ => .bool | .num _ _ => .num | .str _ _ => .str
  | .list _ => .list | .map _ => .map | .func _ => .func

/-- reflect.TypeOf(v).Comparable() for non-nil values: slices and maps are not -/
def PVal.hashable (v : PVal) : Bool := v.kind != .list && v.kind != .map

def PVal.NumOK : PVal → Prop
  | .num i i1 => 0 ≤ i → i1 = i + 1
  | .str _ (some (i, i1)) => 0 ≤ i → i1 = i + 1
  | _ => True

/-! ### the primitives -/

/-- `xs[i]` -/
def goIndex {α : Type} (xs : List α) (i : Int) : R α :=
  if h : 0 ≤ i ∧ i.toNat < xs.length then .ok (xs[i.toNat]'h.2) else .error (.panic "index out of range")

/-- `xs[lo:hi]` -/
def goSlice {α : Type} (xs : List α) (lo hi : Int) : R (List α) :=
  if 0 ≤ lo ∧ lo ≤ hi ∧ hi ≤ xs.length then .ok ((xs.take hi.toNat).drop lo.toNat)
  else .error (.panic "slice bounds out of range")

/-- `v.(T)` without comma-ok -/
def goAssert (k : Kind) (v : PVal) : R PVal :=
  if v.kind = k then .ok v else .error (.panic "interface conversion")

/-- `x, ok := v.(T)` -/
def goAssertOk (k : Kind) (v : PVal) : Option PVal := if v.kind = k then some v else none

/-- structural equality of values (what reflect.DeepEqual / `==` decide once they do not panic);
    the theorems do not depend on it -/
def sameShape : PVal → PVal → Bool
  | .null, .null => true
  | .bool a, .bool b => a == b
  | .num a _, .num b _ => a == b
  | .str a _, .str b _ => a == b
  | .func a, .func b => a == b
  | .list a, .list b => a.length == b.length
  | .map a, .map b => a.length == b.length
  | _, _ => false

/-- `a == b` on two interface values: panics when both hold the same uncomparable dynamic type -/
def goIfaceEq (a b : PVal) : R Bool :=
  if a.kind = b.kind ∧ !a.hashable then .error (.panic "comparing uncomparable type")
  else .ok (sameShape a b)

/-- `m[k] = v` / `m[k]` with an interface key -/
def goMapStore (m : List (PVal × PVal)) (k v : PVal) : R (List (PVal × PVal)) :=
  if k.hashable then .ok (m ++ [(k, v)]) else .error (.panic "hash of unhashable type")

/-- `a % b` on int64 -/
def goIntMod (a b : Int) : R Int :=
  if b = 0 then .error (.panic "integer divide by zero") else .ok (a.tmod b)

/-- errorutil.AssertTrue -/
def assertTrue (c : Bool) : R Unit := if c then .ok () else .error (.panic "assertion failed")

/-! ### guarded call sites (current code) -/

/-- rt_arithmetic.go modintOpRuntime: `if int64(n2) == 0 { error }` before `int64(n1) % int64(n2)` -/
def modSite (a b : Int) : R Int :=
  if b = 0 then .error (.err "Runtime error") else goIntMod a b

/-- rt_boolean.go valuesEqual: same uncomparable type → reflect.DeepEqual, otherwise `==` -/
def eqSite (a b : PVal) : R Bool :=
  if a.kind = b.kind ∧ !a.hashable then .ok (sameShape a b) else goIfaceEq a b

/-- rt_boolean.go inOpRuntime: the right operand is asserted with comma-ok, elements compared by valuesEqual -/
def inSite (a b : PVal) : R Bool :=
  match goAssertOk .list b with
  | some (.list xs) => xs.foldlM (fun found x => do if found then pure true else eqSite a x) false
  | _ => .error (.err "Operand is not a list")

/-- rt_value.go mapValueRuntime: entry shape, then key kind, then the store -/
def mapLitSite (entryName : String) (entry : List PVal) (m : List (PVal × PVal)) : R (List (PVal × PVal)) :=
  if entryName ≠ "kvp" ∨ entry.length ≠ 2 then .error (.err "Invalid construct")
  else do
    let k ← goIndex entry 0
    if k.kind ≠ .null ∧ !k.hashable then .error (.err "Invalid construct")
    else do
      let v ← goIndex entry 1
      goMapStore m k v

/-- the index adjustment shared by the three list accesses of scope/varsscope.go -/
def adjust (len : Nat) (idx : Int) : Int := if idx < 0 then idx + len else idx

/-- varsscope.go getValue: `if index < 0 { index += len }; if index >= 0 && index < len { list[index] }` -/
def listGetSite (xs : List PVal) (idx : Int) : R PVal :=
  let i := adjust xs.length idx
  if 0 ≤ i ∧ i < xs.length then goIndex xs i else .error (.err "Out of bounds access to list")

/-- varsscope.go setValue: the same guard before `list[index] = v` -/
def listSetSite (xs : List PVal) (idx : Int) (v : PVal) : R (List PVal) :=
  let i := adjust xs.length idx
  if 0 ≤ i ∧ i < xs.length then do let _ ← goIndex xs i; pure (xs.set i.toNat v)
  else .error (.err "Out of bounds access to list")

/-- varsscope.go containerAccess (nested write): the same guard -/
def listWalkSite (xs : List PVal) (idx : Int) : R PVal :=
  let i := adjust xs.length idx
  if 0 ≤ i ∧ i < xs.length then goIndex xs i else .error (.err "Out of bounds access to list")

/-- varsscope.go: the container is tested with comma-ok assertions -/
def containerSite (c : PVal) (idx : Option Int) : R PVal :=
  match goAssertOk .map c, goAssertOk .list c with
  | some _, _ => .ok .null
  | none, some (.list xs) =>
    match idx with
    | some i => listGetSite xs i
    | none => .error (.err "List needs a number index")
  | _, _ => .error (.err "Variable is not a container")

/-- rt_general.go numOp / boolOp: operands asserted with comma-ok -/
def numOpSite (a b : PVal) : R PVal :=
  match goAssertOk .num a, goAssertOk .num b with
  | some x, some _ => .ok x
  | _, _ => .error (.err "Operand is not a number")

/-- func_provider.go raise: the error type defaults to ErrRuntimeError, `args[k]` only under `len(args) > k` -/
def raiseSite (args : List PVal) : R PVal := do
  let _ty ← (if args.length > 0 then do let a ← goIndex args 0; pure (some a) else pure none)
  let _detail ← (if args.length > 1 then do let a ← goIndex args 1; pure (some a) else pure none)
  let _data ← (if args.length > 2 then do let a ← goIndex args 2; pure (some a) else pure none)
  .error (.err "raised")

/-- rt_sink.go sinkDetailRuntime.Eval (comma-ok kind check) followed by the unchecked assertion in
    createRule / makeStringList -/
def sinkAttrSite (want : Kind) (v : PVal) : R PVal :=
  match goAssertOk want v with
  | none => .error (.err "Invalid construct")
  | some _ => goAssert want v

/-- engine/rule.go RuleMatcherKey.addRule / match: hashable values index a Go map, the others are
    kept in a side list and compared with reflect.DeepEqual -/
def stateKeySite (table : List (PVal × PVal)) (v : PVal) : R Bool :=
  if v.kind = .null then .ok true
  else if v.hashable then do let _ ← goMapStore table v .null; pure true
  else .ok (table.any fun p => sameShape p.1 v)

/-- engine/rule.go RuleIndexState.addRuleAtLevel: the level assertion holds by construction of the
    index (a state index is only created for the last kind segment) -/
def stateLeafSite : R Unit := assertTrue (([] : List String).length == 0)

/-! ### unguarded copies (the code before ee44ab4 / 1d04360) -/
def modSiteUnguarded (a b : Int) : R Int := goIntMod a b
def eqSiteUnguarded (a b : PVal) : R Bool := goIfaceEq a b
def listGetSiteUnguarded (xs : List PVal) (idx : Int) : R PVal :=
  let i := adjust xs.length idx
  if i < xs.length then goIndex xs i else .error (.err "Out of bounds access to list")
def mapLitSiteUnguarded (entry : List PVal) (m : List (PVal × PVal)) : R (List (PVal × PVal)) := do
  let k ← goIndex entry 0
  let v ← goIndex entry 1
  goMapStore m k v
def stateKeySiteUnguarded (table : List (PVal × PVal)) (v : PVal) : R Bool := do
  let _ ← goMapStore table v .null; pure true
def sinkAttrSiteUnguarded (want : Kind) (v : PVal) : R PVal := goAssert want v

/-! ### builtins -/

/-- inbuildBaseFunc.AssertNumParam: (int(x), int(x+1)) of the number -/
def assertNumParam (v : PVal) : R (Int × Int) :=
  match goAssertOk .num v with
  | some (.num i i1) => .ok (i, i1)
  | _ =>
    match v with
    | .str _ (some p) => .ok p
    | _ => .error (.err "Parameter should be a number")

def assertListParam (v : PVal) : R (List PVal) :=
  match goAssertOk .list v with
  | some (.list xs) => .ok xs
  | _ => .error (.err "Parameter should be a list")

def assertMapParam (v : PVal) : R (List (PVal × PVal)) :=
  match goAssertOk .map v with
  | some (.map kvs) => .ok kvs
  | _ => .error (.err "Parameter should be a map")

def lenFunc (args : List PVal) : R PVal :=
  if args.length > 0 then do
    let a ← goIndex args 0
    match goAssertOk .list a, goAssertOk .map a with
    | some (.list xs), _ => .ok (.num xs.length (xs.length + 1))
    | _, some (.map kvs) => .ok (.num kvs.length (kvs.length + 1))
    | _, _ => .error (.err "Need a list or a map as first parameter")
  else .error (.err "Need a list or a map as first parameter")

def typeFunc (args : List PVal) : R PVal :=
  if args.length > 0 then do let _ ← goIndex args 0; .ok (.str "" none)
  else .error (.err "Need a value as first parameter")

/-- delFunc.Run; `guard = false` is the code before ee44ab4 -/
def delFuncG (guard : Bool) (args : List PVal) : R PVal :=
  if args.length = 2 then do
    let a0 ← goIndex args 0
    let a1 ← goIndex args 1
    match goAssertOk .list a0, goAssertOk .map a0 with
    | some (.list xs), _ => do
      let (i, i1) ← assertNumParam a1
      if guard && (i < 0 || i ≥ xs.length) then .error (.err "Out of bounds access to list")
      else do
        let l ← goSlice xs 0 i
        let r ← goSlice xs (if guard then i + 1 else i1) xs.length
        .ok (.list (l ++ r))
    | _, some (.map kvs) => .ok (.map kvs)
    | _, _ => .error (.err "Need a list or a map as first parameter and an index or key as second parameter")
  else .error (.err "Need a list or a map as first parameter and an index or key as second parameter")
def delFunc := delFuncG true

/-- addFunc.Run -/
def addFuncG (guard : Bool) (args : List PVal) : R PVal :=
  if args.length > 1 then do
    let a0 ← goIndex args 0
    let xs ← assertListParam a0
    let v ← goIndex args 1
    if args.length = 3 then do
      let a2 ← goIndex args 2
      let (i, i1) ← assertNumParam a2
      if guard && (i < 0 || i > xs.length) then .error (.err "Out of bounds access to list")
      else do
        let ys := xs ++ [PVal.num 0 1]
        let _ ← goSlice ys i1 ys.length          -- copy(argList[int(index+1):], argList[int(index):])
        let _ ← goSlice ys i ys.length
        let _ ← goIndex ys i                      -- argList[int(index)] = args[1]
        .ok (.list (ys.set i.toNat v))
    else .ok (.list (xs ++ [v]))
  else .error (.err "Need a list as first parameter and a value as second parameter")
def addFunc := addFuncG true

def concatFunc (args : List PVal) : R PVal :=
  if args.length > 1 then do
    let parts ← args.mapM assertListParam
    .ok (.list parts.flatten)
  else .error (.err "Need at least two lists as parameters")

/-- rangeFunc.Run, first call of a call site (the state entries it asserts later were stored by itself) -/
def rangeFunc (args : List PVal) : R PVal :=
  if args.length = 0 then .error (.err "Need at least an end range as first parameter")
  else if args.length = 1 then do
    let a ← goIndex args 0; let _ ← assertNumParam a; .error .iter
  else do
    let a ← goIndex args 0; let _ ← assertNumParam a
    let b ← goIndex args 1; let _ ← assertNumParam b
    if args.length > 2 then do
      let c ← goIndex args 2; let _ ← assertNumParam c; .error .iter
    else .error .iter

def mapGet (kvs : List (PVal × PVal)) (key : String) : Option PVal :=
  (kvs.find? fun p => match p.1 with | .str s _ => s == key | _ => false).map (·.2)

/-- newFunc.addSuperClasses: `super` must be a list (comma-ok), entries that are not maps are skipped -/
def addSuperClasses : Nat → List (PVal × PVal) → R Unit
  | 0, _ => .ok ()
  | d+1, template =>
    match mapGet template "super" with
    | none => .ok ()
    | some sup =>
      match goAssertOk .list sup with
      | some (.list xs) =>
        xs.forM fun x => match goAssertOk .map x with
          | some (.map t) => addSuperClasses d t
          | _ => .ok ()
      | _ => .error (.err "Property _super must be a list of super classes")

/-- newFunc.Run; `initRun` stands for running the user's init function (user code: any outcome but a
    panic of the interpreter, which is what `eval_never_panics` is about) -/
def newFunc (initRun : List PVal → R Unit) (args : List PVal) : R PVal :=
  if args.length > 0 then do
    let a0 ← goIndex args 0
    let tmpl ← assertMapParam a0
    let r := addSuperClasses 64 tmpl
    match mapGet tmpl "init" with
    | some i =>
      match goAssertOk .func i with
      | some _ => do
        let rest ← goSlice args 1 args.length
        initRun rest
        .ok (.map tmpl)
      | none => do r; .ok (.map tmpl)
    | none => do r; .ok (.map tmpl)
  else .error (.err "Need a map as first parameter")

def builtinNames : List String := ["len", "add", "del", "concat", "range", "raise", "type", "new"]

/-- the modelled builtins (any other name: not modelled here) -/
def builtin (initRun : List PVal → R Unit) (name : String) (args : List PVal) : Option (R PVal) :=
  match name with
  | "len" => some (lenFunc args) | "add" => some (addFunc args) | "del" => some (delFunc args)
  | "concat" => some (concatFunc args) | "range" => some (rangeFunc args) | "raise" => some (raiseSite args)
  | "type" => some (typeFunc args) | "new" => some (newFunc initRun args)
  | _ => none

end Ecal.Prims
