/-!
C06 — transcriptions that are NOT part of the evaluator model `Ecal.Ev`: the argument checking of the Go
builtins `len add del concat range raise type` (func_provider.go) over an abstract value type, the kind check
of the sink attributes (rt_sink.go) and the state matcher's key test (engine/rule.go).  The driver uses
`builtin` only where `Ecal.Ev` says UNSUP (string-numbers for range/del, float / function formatting for
raise/type) and `sinkAttrSite` for the sink-attribute family; everything else here is compared with Go only
through those cases.  The guarded value-level sites of the INTERPRETER (list access, delete/insert, map
literal keys, `%`, `==`, operand assertions) are NOT here any more: they live in `Ecal/Model/GoPrim.lean`
over the evaluator's own values and are tied to `Ecal.Ev` by `Ecal/Lemmas/C06Guards.lean`.

Numbers: a builtin only ever converts a number argument with `int(x)` and `int(x+1)`; a number is
represented by these two conversion results (`num i i1`).  `PVal.NumOK`: `0 ≤ i → i ≤ i1 ≤ i+1` — true for
every float64 on every platform (also NaN / ±Inf / -0.5, where Go's conversion is implementation defined but
monotone); nothing else is assumed about `i`, `i1`.
Strings carry whether `strconv.ParseFloat` accepts them.  Slices: capacity = length (a slice expression that
Go accepts because of spare capacity is a panic here: the guards are shown sufficient even without it).
`del(map, k)`, `type(v)`, `raise(v…)` print their argument with fmt.Sprint in Go: the known finding
`cyclic-container-stringify` is outside these transcriptions (PVal is a tree).
-/
namespace Ecal.Prims

inductive E where
  | err (kind : String)        -- an ECAL error value (runtime error type / plain error)
  | iter                       -- ErrIsIterator travelling with the current value
  | panic (site : String)      -- a Go runtime panic
  deriving Repr, DecidableEq

abbrev R := Except E

def isPanic {α : Type} : R α → Bool
  | .error (.panic _) => true
  | _ => false

inductive PVal where
  | null | bool (b : Bool)
  | num (i i1 : Int)                                   -- int(x), int(x+1)
  | str (s : String) (asNum : Option (Int × Int))      -- ParseFloat result, if it parses
  | list (xs : List PVal) | map (kvs : List (PVal × PVal)) | func (id : Nat)
  deriving Repr, Inhabited

inductive Kind where
  | null | bool | num | str | list | map | func
  deriving Repr, DecidableEq

def PVal.kind : PVal → Kind
  | .null => .null | .bool _ => .bool | .num _ _ => .num | .str _ _ => .str
  | .list _ => .list | .map _ => .map | .func _ => .func

/-- reflect.TypeOf(v).Comparable() for non-nil values: slices and maps are not -/
def PVal.hashable (v : PVal) : Bool := v.kind != .list && v.kind != .map

def PVal.NumOK : PVal → Prop
  | .num i i1 => 0 ≤ i → i ≤ i1 ∧ i1 ≤ i + 1
  | .str _ (some (i, i1)) => 0 ≤ i → i ≤ i1 ∧ i1 ≤ i + 1
  | _ => True

/-! ### the primitives -/

/-- `xs[i]` -/
def goIndex {α : Type} (xs : List α) (i : Int) : R α :=
  if h : 0 ≤ i ∧ i.toNat < xs.length then .ok (xs[i.toNat]'h.2) else .error (.panic "index out of range")

/-- `xs[lo:hi]` -/
def goSlice {α : Type} (xs : List α) (lo hi : Int) : R (List α) :=
  if 0 ≤ lo ∧ lo ≤ hi ∧ hi ≤ xs.length then .ok ((xs.take hi.toNat).drop lo.toNat)
  else .error (.panic "slice bounds out of range")

/-- `v.(T)` without comma-ok -/
def goAssert (k : Kind) (v : PVal) : R PVal :=
  if v.kind = k then .ok v else .error (.panic "interface conversion")

/-- `x, ok := v.(T)` -/
def goAssertOk (k : Kind) (v : PVal) : Option PVal := if v.kind = k then some v else none

/-- structural equality of values (what reflect.DeepEqual / `==` decide once they do not panic);
    the theorems do not depend on it -/
def sameShape : PVal → PVal → Bool
  | .null, .null => true
  | .bool a, .bool b => a == b
  | .num a _, .num b _ => a == b
  | .str a _, .str b _ => a == b
  | .func a, .func b => a == b
  | .list a, .list b => a.length == b.length
  | .map a, .map b => a.length == b.length
  | _, _ => false

/-- `m[k] = v` / `m[k]` with an interface key -/
def goMapStore (m : List (PVal × PVal)) (k v : PVal) : R (List (PVal × PVal)) :=
  if k.hashable then .ok (m ++ [(k, v)]) else .error (.panic "hash of unhashable type")

/-! ### sites outside the evaluator model -/

/-- func_provider.go raise: the error type defaults to ErrRuntimeError, `args[k]` only under `len(args) > k` -/
def raiseSite (args : List PVal) : R PVal := do
  let _ty ← (if args.length > 0 then do let a ← goIndex args 0; pure (some a) else pure none)
  let _detail ← (if args.length > 1 then do let a ← goIndex args 1; pure (some a) else pure none)
  let _data ← (if args.length > 2 then do let a ← goIndex args 2; pure (some a) else pure none)
  .error (.err "raised")

/-- rt_sink.go sinkDetailRuntime.Eval (comma-ok kind check) followed by the unchecked assertion in
    createRule / makeStringList -/
def sinkAttrSite (want : Kind) (v : PVal) : R PVal :=
  match goAssertOk want v with
  | none => .error (.err "Invalid construct")
  | some _ => goAssert want v

/-- engine/rule.go RuleMatcherKey.addRule / match: hashable values index a Go map, the others are
    kept in a side list and compared with reflect.DeepEqual -/
def stateKeySite (table : List (PVal × PVal)) (v : PVal) : R Bool :=
  if v.kind = .null then .ok true
  else if v.hashable then do let _ ← goMapStore table v .null; pure true
  else .ok (table.any fun p => sameShape p.1 v)

/-! ### unguarded copies (1d04360; a sink attribute without its kind check) -/
def stateKeySiteUnguarded (table : List (PVal × PVal)) (v : PVal) : R Bool := do
  let _ ← goMapStore table v .null; pure true
def sinkAttrSiteUnguarded (want : Kind) (v : PVal) : R PVal := goAssert want v

/-! ### builtins -/

/-- inbuildBaseFunc.AssertNumParam: (int(x), int(x+1)) of the number -/
def assertNumParam (v : PVal) : R (Int × Int) :=
  match goAssertOk .num v with
  | some (.num i i1) => .ok (i, i1)
  | _ =>
    match v with
    | .str _ (some p) => .ok p
    | _ => .error (.err "Parameter should be a number")

def assertListParam (v : PVal) : R (List PVal) :=
  match goAssertOk .list v with
  | some (.list xs) => .ok xs
  | _ => .error (.err "Parameter should be a list")

def assertMapParam (v : PVal) : R (List (PVal × PVal)) :=
  match goAssertOk .map v with
  | some (.map kvs) => .ok kvs
  | _ => .error (.err "Parameter should be a map")

def lenFunc (args : List PVal) : R PVal :=
  if args.length > 0 then do
    let a ← goIndex args 0
    match goAssertOk .list a, goAssertOk .map a with
    | some (.list xs), _ => .ok (.num xs.length (xs.length + 1))
    | _, some (.map kvs) => .ok (.num kvs.length (kvs.length + 1))
    | _, _ => .error (.err "Need a list or a map as first parameter")
  else .error (.err "Need a list or a map as first parameter")

def typeFunc (args : List PVal) : R PVal :=
  if args.length > 0 then do let _ ← goIndex args 0; .ok (.str "" none)
  else .error (.err "Need a value as first parameter")

/-- delFunc.Run; `guard = false` is the code before ee44ab4 -/
def delFuncG (guard : Bool) (args : List PVal) : R PVal :=
  if args.length = 2 then do
    let a0 ← goIndex args 0
    let a1 ← goIndex args 1
    match goAssertOk .list a0, goAssertOk .map a0 with
    | some (.list xs), _ => do
      let (i, i1) ← assertNumParam a1
      if guard && (i < 0 || i ≥ xs.length) then .error (.err "Out of bounds access to list")
      else do
        let l ← goSlice xs 0 i
        let r ← goSlice xs (if guard then i + 1 else i1) xs.length
        .ok (.list (l ++ r))
    | _, some (.map kvs) => .ok (.map kvs)
    | _, _ => .error (.err "Need a list or a map as first parameter and an index or key as second parameter")
  else .error (.err "Need a list or a map as first parameter and an index or key as second parameter")
def delFunc := delFuncG true

/-- addFunc.Run -/
def addFuncG (guard : Bool) (args : List PVal) : R PVal :=
  if args.length > 1 then do
    let a0 ← goIndex args 0
    let xs ← assertListParam a0
    let v ← goIndex args 1
    if args.length = 3 then do
      let a2 ← goIndex args 2
      let (i, _) ← assertNumParam a2
      if guard && (i < 0 || i > xs.length) then .error (.err "Out of bounds access to list")
      else do
        -- after 4ad50aa: a new list from argList[:int(index)], the value, argList[int(index):]
        let left ← goSlice xs 0 i
        let right ← goSlice xs i xs.length
        .ok (.list (left ++ [v] ++ right))
    else .ok (.list (xs ++ [v]))
  else .error (.err "Need a list as first parameter and a value as second parameter")
def addFunc := addFuncG true

def concatFunc (args : List PVal) : R PVal :=
  if args.length > 1 then do
    let parts ← args.mapM assertListParam
    .ok (.list parts.flatten)
  else .error (.err "Need at least two lists as parameters")

/-- rangeFunc.Run, first call of a call site (the state entries it asserts later were stored by itself) -/
def rangeFunc (args : List PVal) : R PVal :=
  if args.length = 0 then .error (.err "Need at least an end range as first parameter")
  else if args.length = 1 then do
    let a ← goIndex args 0; let _ ← assertNumParam a; .error .iter
  else do
    let a ← goIndex args 0; let _ ← assertNumParam a
    let b ← goIndex args 1; let _ ← assertNumParam b
    if args.length > 2 then do
      let c ← goIndex args 2; let _ ← assertNumParam c; .error .iter
    else .error .iter

def builtinNames : List String := ["len", "add", "del", "concat", "range", "raise", "type"]

/-- the modelled builtins (any other name: not modelled here) -/
def builtin (name : String) (args : List PVal) : Option (R PVal) :=
  match name with
  | "len" => some (lenFunc args) | "add" => some (addFunc args) | "del" => some (delFunc args)
  | "concat" => some (concatFunc args) | "range" => some (rangeFunc args) | "raise" => some (raiseSite args)
  | "type" => some (typeFunc args)
  | _ => none

end Ecal.Prims
