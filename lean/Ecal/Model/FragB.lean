import Ecal.Model.Eval
/-!
C06 — `fragB`: a decision procedure for the fragment `Frag` of `eval_never_panics_partial`
(`Ecal/Lemmas/C06NoPanic.lean`); soundness `fragB k n = true → Frag n` is `Ecal/Lemmas/C06FragB.lean`.
The driver evaluates it on the tree the REAL parser produced for every generated case and prints `frag=1`,
so the evidence shows which share of the cases the no-panic theorem speaks about. Fuel `k` bounds the depth.
-/
namespace Ecal.FragB
open Ecal.Parse (Node)

def allKids (f : Node → Bool) (l : List (Option Node)) : Bool :=
  l.all fun c => match c with | some c => f c | none => false

def pairsB (f : Node → Bool) : List (Option Node) → Bool
  | [] => true
  | some g :: some b :: rest => f g && f b && pairsB f rest
  | _ => false

def entryB (f : Node → Bool) (c : Node) : Bool :=
  match c.children with
  | [some a, some b] => c.name != "kvp" || (f a && f b)
  | _ => c.name != "kvp" || c.children.length != 2

def clauseB (f : Node → Bool) (c : Node) : Bool :=
  match c.name with
  | "except" =>
    c.tok.isSome && !c.children.isEmpty && allKids f c.children &&
    -- the first child of a clause with several children carries a token (the binding variable / first type)
    (match c.children with
     | some k0 :: _ :: _ => k0.tok.isSome
     | _ => true)
  | "otherwise" | "finally" => c.tok.isSome && (match c.children with | [some b] => f b | _ => false)
  | _ => true

def paramB (f : Node → Bool) (p : Node) : Bool :=
  match p.name with
  | "identifier" => p.tok.isSome
  | "preset" => (match p.children with | [some nm, some d] => nm.tok.isSome && f d | _ => false)
  | _ => true

mutual
def fragB : Nat → Node → Bool
  | 0, _ => false
  | k+1, n =>
    -- the parser builds `statements`, `guard` (and the `true` of an else-guard) without a token; constants and the
    -- nodes the model does not evaluate need none
    (match n.name with
     | "true" | "false" | "null" => true
     | "number" | "string" | "break" | "continue" => n.tok.isSome
     | "plus" | "minus" => n.tok.isSome &&
       (match n.children with
        | [some c] => fragB k c
        | [some a, some b] => fragB k a && fragB k b
        | _ => false)
     | "guard" => (match n.children with | [some c] => fragB k c | _ => false)
     | "not" | "let" => n.tok.isSome && (match n.children with | [some c] => fragB k c | _ => false)
     | "as" => n.tok.isSome && (match n.children with | [some c] => fragB k c && c.tok.isSome | _ => false)
     | "times" | "div" | "divint" | "modint" | "and" | "or" | "==" | "!=" | ">=" | ">" | "<=" | "<" | "in" | "notin"
     | "hasprefix" | "hassuffix" | ":=" | "loop" => n.tok.isSome &&
       (match n.children with | [some a, some b] => fragB k a && fragB k b | _ => false)
     | "return" => n.tok.isSome && (match n.children with | [] => true | [some c] => fragB k c | _ => false)
     | "statements" => allKids (fragB k) n.children
     | "list" => n.tok.isSome && allKids (fun c => fragB k c && c.tok.isSome) n.children
     | "map" => n.tok.isSome && allKids (entryB (fragB k)) n.children
     | "identifier" => n.tok.isSome && allKids (linkB k) n.children
     | "if" => n.tok.isSome && pairsB (fragB k) n.children
     | "try" => n.tok.isSome &&
       (match n.children with
        | some body :: rest => fragB k body && body.name != "finally" && allKids (clauseB (fragB k)) rest
        | _ => false)
     | "function" => n.tok.isSome &&
       (match n.children with
        | [some c0, some params, some body] =>
          c0.name == "identifier" && c0.tok.isSome && allKids (paramB (fragB k)) params.children && fragB k body
        | [some params, some body] =>
          params.name != "identifier" && allKids (paramB (fragB k)) params.children && fragB k body
        | _ => false)
     | "like" | "kvp" | "preset" | "params" | "funccall" | "compaccess" | "except" | "otherwise" | "finally"
     | "sink" | "import" | "mutex" | "kindmatch" | "scopematch" | "statematch" | "priority" | "suppresses" | "EOF" => true
     | _ => false)
def linkB : Nat → Node → Bool
  | 0, _ => false
  | k+1, c =>
    match c.name with
    | "compaccess" => (match c.children with | [some e] => fragB k e | _ => false)
    | "identifier" => c.tok.isSome && allKids (linkB k) c.children
    | "funccall" => allKids (fragB k) c.children
    | _ => true
end

end Ecal.FragB
