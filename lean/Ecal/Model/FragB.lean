import Ecal.Model.Eval
/-!
C06 — `fragB`: a decision procedure for the fragment `Frag` of `eval_never_panics_partial`
(`Ecal/Lemmas/C06NoPanic.lean`); soundness `fragB k n = true → Frag n` is `Ecal/Lemmas/C06FragB.lean`.
The driver evaluates it on the tree the REAL parser produced for every generated case and prints `frag=1`,
so the evidence shows which share of the cases the no-panic theorem speaks about. Fuel `k` bounds the depth.
-/
namespace Ecal.FragB
open Ecal.Parse (Node)

def allKids (f : Node → Bool) (l : List (Option Node)) : Bool :=
  l.all fun c => match c with | some c => f c | none => false

def pairsB (f : Node → Bool) : List (Option Node) → Bool
  | [] => true
  | some g :: some b :: rest => f g && f b && pairsB f rest
  | _ => false

def entryB (f : Node → Bool) (c : Node) : Bool :=
  match c.children with
  | [some a, some b] => c.name != "kvp" || (f a && f b)
  | _ => c.name != "kvp" || c.children.length != 2

def clauseB (f : Node → Bool) (c : Node) : Bool :=
  match c.name with
  | "except" =>
    c.tok.isSome && !c.children.isEmpty && allKids f c.children &&
    -- the first child of a clause with several children is never a `statements` / `guard` node
    (match c.children with
     | some k0 :: _ :: _ => k0.name != "statements" && k0.name != "guard"
     | _ => true)
  | "otherwise" | "finally" => c.tok.isSome && (match c.children with | [some b] => f b | _ => false)
  | _ => true

def paramB (f : Node → Bool) (p : Node) : Bool :=
  match p.name with
  | "identifier" => p.tok.isSome
  | "preset" => (match p.children with | [some nm, some d] => nm.tok.isSome && f d | _ => false)
  | _ => true

mutual
def fragB : Nat → Node → Bool
  | 0, _ => false
  | k+1, n =>
    -- the parser builds `statements` and `guard` nodes without a token
    (n.tok.isSome || n.name == "statements" || n.name == "guard") &&
    (match n.name with
     | "true" | "false" | "null" | "number" | "string" | "break" | "continue" => true
     | "plus" | "minus" =>
       (match n.children with
        | [some c] => fragB k c
        | [some a, some b] => fragB k a && fragB k b
        | _ => false)
     | "not" | "guard" | "let" => (match n.children with | [some c] => fragB k c | _ => false)
     | "as" => (match n.children with | [some c] => fragB k c && c.name != "statements" && c.name != "guard" | _ => false)
     | "times" | "div" | "divint" | "modint" | "and" | "or" | "==" | "!=" | ">=" | ">" | "<=" | "<" | "in" | "notin"
     | "hasprefix" | "hassuffix" | ":=" | "loop" =>
       (match n.children with | [some a, some b] => fragB k a && fragB k b | _ => false)
     | "return" => (match n.children with | [] => true | [some c] => fragB k c | _ => false)
     | "statements" => allKids (fragB k) n.children
     | "list" => allKids (fun c => fragB k c && c.name != "statements" && c.name != "guard") n.children
     | "map" => allKids (entryB (fragB k)) n.children
     | "identifier" => allKids (linkB k) n.children
     | "if" => pairsB (fragB k) n.children
     | "try" =>
       (match n.children with
        | some body :: rest => fragB k body && body.name != "finally" && allKids (clauseB (fragB k)) rest
        | _ => false)
     | "function" =>
       (match n.children with
        | [some c0, some params, some body] =>
          c0.name == "identifier" && c0.tok.isSome && allKids (paramB (fragB k)) params.children && fragB k body
        | [some params, some body] =>
          params.name != "identifier" && allKids (paramB (fragB k)) params.children && fragB k body
        | _ => false)
     | "like" | "kvp" | "preset" | "params" | "funccall" | "compaccess" | "except" | "otherwise" | "finally"
     | "sink" | "import" | "mutex" => true
     | _ => false)
def linkB : Nat → Node → Bool
  | 0, _ => false
  | k+1, c =>
    match c.name with
    | "compaccess" => (match c.children with | [some e] => fragB k e | _ => false)
    | "identifier" => c.tok.isSome && allKids (linkB k) c.children
    | "funccall" => allKids (fragB k) c.children
    | _ => true
end

end Ecal.FragB
