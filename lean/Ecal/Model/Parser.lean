import Ecal.Model.Lexer
/-!
Model of parser/parser.go + helper.go as they are NOW (after the fix commits 486e4c7 "first
error in a block wins", c1d34c3 "tree xor error / lexer error after ';'", cbd1b2f "per-parse
block-start flag", be7569d "lexer error after '[' of a composition access is reported" — found by
this model: `a["` was a nil dereference): the Pratt parser with its statement loops. The parser runs on a token list
(`parseToks`); `parse` = `parseToks ∘ lex` is kept for the models which start from text.
Fuel-indexed mutual recursion in a small error+state monad `M` (own definition, so that the
proofs in `Ecal/Lemmas/ParserSafe.lean` control every unfolding); `Err.panic` is a Go nil
dereference, `Err.fuel` = recursion budget exhausted (`Props/C07.lean` proves neither is ever
returned). The drain of the token channel (f2d708b) is not visible at this level; it is the
subject of the channel transition system in `Props/C07.lean`.
-/
namespace Ecal.Parse
open Ecal.Lex

inductive Nud where
  | none | term | identifier | inner | list | map | prefix | import_ | sink | func | return_
  | guard | loop | try_ | mutex | block
  deriving DecidableEq, Repr, Inhabited
inductive Led where | none | infix deriving DecidableEq, Repr, Inhabited

/-- comment attached to a node: `pre` = /* */ before it, otherwise # after it -/
structure Meta where
  pre : Bool
  val : List Nat
  deriving Repr, Inhabited, DecidableEq

inductive Node where
  | mk (name : String) (tok : Option Tok) (binding : Nat) (nud : Nud) (led : Led) (children : List (Option Node))
      (metas : List Meta)
  deriving Repr, Inhabited

namespace Node
def name : Node → String | mk n _ _ _ _ _ _ => n
def tok : Node → Option Tok | mk _ t _ _ _ _ _ => t
def binding : Node → Nat | mk _ _ b _ _ _ _ => b
def nud : Node → Nud | mk _ _ _ n _ _ _ => n
def led : Node → Led | mk _ _ _ _ l _ _ => l
def children : Node → List (Option Node) | mk _ _ _ _ _ c _ => c
def metas : Node → List Meta | mk _ _ _ _ _ _ m => m
def add (n : Node) (c : Option Node) : Node :=
  match n with | mk a t b x l cs m => mk a t b x l (cs ++ [c]) m
def addMeta (n : Node) (ms : List Meta) : Node :=
  match n with | mk a t b x l cs m => mk a t b x l cs (m ++ ms)
def setChildren (n : Node) (cs : List (Option Node)) : Node :=
  match n with | mk a t b x l _ m => mk a t b x l cs m
def tokId (n : Node) : Option Nat := n.tok.map (·.id)
end Node

/-- astNodeMap: token id → (node name, binding, nud, led) -/
def table (id : Nat) : Option (String × Nat × Nud × Led) :=
  match id with
  | 1 => some ("EOF", 0, .term, .none)
  | 5 => some ("string", 0, .term, .none)
  | 6 => some ("number", 0, .term, .none)
  | 7 => some ("identifier", 0, .identifier, .none)
  | 8 => some ("statements", 0, .none, .none)
  | 9 => some ("funccall", 0, .none, .none)
  | 10 => some ("compaccess", 0, .none, .none)
  | 11 => some ("list", 0, .none, .none)
  | 12 => some ("map", 0, .none, .none)
  | 13 => some ("params", 0, .none, .none)
  | 14 => some ("guard", 0, .none, .none)
  | 16 => some (">=", 60, .none, .infix) | 17 => some ("<=", 60, .none, .infix)
  | 18 => some ("!=", 60, .none, .infix) | 19 => some ("==", 60, .none, .infix)
  | 20 => some (">", 60, .none, .infix) | 21 => some ("<", 60, .none, .infix)
  | 22 => some ("", 150, .inner, .none) | 23 => some ("", 0, .none, .none)
  | 24 => some ("", 150, .list, .none) | 25 => some ("", 0, .none, .none)
  | 26 => some ("", 150, .map, .none) | 27 => some ("", 0, .none, .none)
  | 28 => some ("", 0, .none, .none) | 29 => some ("", 0, .none, .none) | 30 => some ("", 0, .none, .none)
  | 31 => some ("kvp", 60, .none, .infix) | 32 => some ("preset", 60, .none, .infix)
  | 33 => some ("plus", 110, .prefix, .infix) | 34 => some ("minus", 110, .prefix, .infix)
  | 35 => some ("times", 120, .none, .infix) | 36 => some ("div", 120, .none, .infix)
  | 37 => some ("divint", 120, .none, .infix) | 38 => some ("modint", 120, .none, .infix)
  | 39 => some (":=", 10, .none, .infix) | 40 => some ("let", 0, .prefix, .none)
  | 42 => some ("import", 0, .import_, .none) | 43 => some ("as", 0, .none, .none)
  | 44 => some ("sink", 0, .sink, .none)
  | 45 => some ("kindmatch", 150, .prefix, .none) | 46 => some ("scopematch", 150, .prefix, .none)
  | 47 => some ("statematch", 150, .prefix, .none) | 48 => some ("priority", 150, .prefix, .none)
  | 49 => some ("suppresses", 150, .prefix, .none)
  | 50 => some ("function", 0, .func, .none) | 51 => some ("return", 0, .return_, .none)
  | 52 => some ("and", 40, .none, .infix) | 53 => some ("or", 30, .none, .infix)
  | 54 => some ("not", 20, .prefix, .none)
  | 55 => some ("like", 60, .none, .infix) | 56 => some ("in", 60, .none, .infix)
  | 57 => some ("hasprefix", 60, .none, .infix) | 58 => some ("hassuffix", 60, .none, .infix)
  | 59 => some ("notin", 60, .none, .infix)
  | 60 => some ("false", 0, .term, .none) | 61 => some ("true", 0, .term, .none) | 62 => some ("null", 0, .term, .none)
  | 63 => some ("if", 0, .guard, .none) | 64 => some ("", 0, .none, .none) | 65 => some ("", 0, .none, .none)
  | 66 => some ("loop", 0, .loop, .none) | 67 => some ("break", 0, .term, .none) | 68 => some ("continue", 0, .term, .none)
  | 69 => some ("try", 0, .try_, .none) | 70 => some ("except", 0, .none, .none)
  | 71 => some ("otherwise", 0, .none, .none) | 72 => some ("finally", 0, .none, .none)
  | 73 => some ("mutex", 0, .mutex, .none)
  | _ => none

def T_EOF := 1
def T_STRING := 5
def T_IDENTIFIER := 7
def T_STATEMENTS := 8
def T_FUNCCALL := 9
def T_COMPACCESS := 10
def T_LIST := 11
def T_MAP := 12
def T_PARAMS := 13
def T_GUARD := 14
def T_LPAREN := 22
def T_RPAREN := 23
def T_LBRACK := 24
def T_RBRACK := 25
def T_LBRACE := 26
def T_RBRACE := 27
def T_DOT := 28
def T_COMMA := 29
def T_SEMICOLON := 30
def T_AS := 43
def T_IN := 56
def T_TRUE := 61
def T_ELIF := 64
def T_ELSE := 65
def T_EXCEPT := 70
def T_OTHERWISE := 71
def T_FINALLY := 72

inductive Err where
  | perr (kind : String) (line : Nat) (col : Int)
  | panic
  | fuel
  deriving Repr, DecidableEq

structure P where
  toks : List Tok             -- tokens not yet read (the look-ahead buffer is invisible at this level)
  node : Option Node          -- p.node
  braceBlock : Nat := 0       -- p.tokens.braceStartsBlock: > 0 while a guard expression is parsed

/-- outcome of a parser action: the parser object (state) survives an error, as in Go -/
inductive Res (α : Type) where
  | ok (a : α) (p : P)
  | err (e : Err) (p : P)

def M (α : Type) : Type := P → Res α

instance : Monad M where
  pure a := fun p => .ok a p
  bind m k := fun p => match m p with
    | .ok a p' => k a p'
    | .err e p' => .err e p'

def getP : M P := fun p => .ok p p
def modifyP (f : P → P) : M Unit := fun p => .ok () (f p)
def throwE {α : Type} (e : Err) : M α := fun p => .err e p

/-- run `m`, turning its error into a value; the state changes made before the error stay -/
def attempt {α : Type} (m : M α) : M (Except Err α) := fun p =>
  match m p with
  | .ok a p' => .ok (.ok a) p'
  | .err e p' => .ok (.error e) p'

def instanceOf (braceBlock : Nat) (id : Nat) (t : Option Tok) : Node :=
  -- astNodeBlockBrace: only ends a guard expression (binding 0); it has NO null denotation
  -- (fixes/C07-brace-in-guard.patch; before, its null denotation was parseInnerStatements and
  -- `if [ { { a } ] { }` returned a tree with a nameless node wrapping a statements node)
  if id = T_LBRACE ∧ braceBlock > 0 then Node.mk "" t 0 .none .none [] []
  else match table id with
    | some (n, b, x, l) => Node.mk n t b x l [] []
    | none => Node.mk "?" t 0 .none .none [] []

def mkNode (id : Nat) (t : Option Tok) : M Node := fun p => .ok (instanceOf p.braceBlock id t) p

def errAt (kind : String) (t : Tok) : Err := .perr kind t.line t.col

/-- the comment tokens in front of the next real token: (pre comments, post comments, rest) -/
def splitComments : List Tok → List Meta × List Meta × List Tok
  | t :: ts =>
    if t.id = 3 then let (a, b, r) := splitComments ts; (⟨true, t.val⟩ :: a, b, r)
    else if t.id = 4 then let (a, b, r) := splitComments ts; (a, ⟨false, t.val⟩ :: b, r)
    else ([], [], t :: ts)
  | [] => ([], [], [])

/-- p.next(): the next non-comment token as a node (carrying the pre comments) and the post
    comments, which Go appends to the node that is being left (`p.node`) -/
def nextNode : M (Node × List Meta) := fun p =>
  match splitComments p.toks with
  | (_, _, []) => .err (.perr "Unexpected end" 0 0) { p with toks := [] }
  | (pre, post, t :: ts) =>
    if t.id = 0 then .err (errAt "Lexical error" t) { p with toks := ts }
    else match table t.id with
      | some _ => .ok ((instanceOf p.braceBlock t.id (some t)).addMeta pre, post) { p with toks := ts }
      | none => .err (errAt "Unknown term" t) { p with toks := ts }

/-- `p.node, err = p.next()` : on error p.node becomes nil.  Returns the post comments that
    belong to the node which was current before the call. -/
def advance : M (List Meta) := fun p =>
  match nextNode p with
  | .ok (n, post) p' => .ok post { p' with node := some n }
  | .err e p' => .err e { p' with node := none }

/-- `p.node` dereferenced -/
def cur : M Node := fun p =>
  match p.node with
  | some n => .ok n p
  | none => .err .panic p

def tokOf (n : Node) : M Tok := fun p =>
  match n.tok with | some t => .ok t p | none => .err .panic p

def curId : M Nat := do return (← tokOf (← cur)).id

def skipToken (ids : List Nat) : M Unit := do
  let n ← cur
  let t ← tokOf n
  if !(ids.contains t.id) then
    if t.id = T_EOF then throwE (errAt "Unexpected end" t) else throwE (errAt "Unexpected term" t)
  else
    let _ ← advance

/-- returns the accepted node -/
def acceptChild (id : Nat) : M Node := do
  let current := (← getP).node
  let post ← advance
  match current with
  | none => throwE .panic
  | some c =>
    let c := c.addMeta post
    let t ← tokOf c
    if t.id = id then pure c else throwE (errAt "Unexpected term" t)

def isNotEndAndNotTokens (ids : List Nat) : M Bool := do
  match (← getP).node with
  | none => pure false
  | some n =>
    if n.name = "EOF" then pure false
    else
      let t ← tokOf n
      pure (!(ids.contains t.id))

def isNotEndAndToken (id : Nat) : M Bool := do
  match (← getP).node with
  | none => pure false
  | some n => if n.name = "EOF" then pure false else do let t ← tokOf n; pure (t.id = id)

def hasMoreStatements (current : Node) : M Bool := do
  match (← getP).node with
  | none => pure false
  | some nx =>
    let nt ← tokOf nx
    if nt.id = T_EOF then pure false
    else if nt.id = T_SEMICOLON then pure true
    else do let ct ← tokOf current; pure (ct.line < nt.line)

/-- `p.tokens.braceStartsBlock++ ; exp, err := p.run(0) ; p.tokens.braceStartsBlock--` -/
def withBraceBlock (m : M Node) : M Node := do
  modifyP fun p => { p with braceBlock := p.braceBlock + 1 }
  let r ← attempt m
  modifyP fun p => { p with braceBlock := p.braceBlock - 1 }
  match r with
  | .ok e => pure e
  | .error e => throwE e

/-- `if p.node.Token.ID == id { err = skipToken(p, id) }` -/
def skipOpt (id : Nat) : M Unit := do
  if (← curId) = id then skipToken [id] else pure ()

def skipComma : M Unit := skipOpt T_COMMA

/-- `p.node != nil && p.node.Token.ID != id` -/
def curIsNot (id : Nat) : M Bool := do
  match (← getP).node with
  | none => pure false
  | some n => do let t ← tokOf n; pure (t.id != id)

mutual
def run : Nat → Nat → M Node
  | 0, _ => throwE .fuel
  | f+1, rbp => do
    let n? := (← getP).node           -- n := p.node  (no dereference yet)
    let post ← advance
    match n? with
    | none => throwE .panic            -- n.nullDenotation on a nil node
    | some n =>
      let n := n.addMeta post
      if n.nud = .none then do
        let t ← tokOf n
        throwE (errAt "Term cannot start an expression" t)
      else do
        let left ← nudOf f n
        loopLed f rbp left

def loopLed : Nat → Nat → Node → M Node
  | 0, _, _ => throwE .fuel
  | f+1, rbp, left => do
    let nx ← cur
    if rbp < nx.binding then
      if nx.led = .none then do
        let lt ← tokOf left
        let nt ← tokOf nx
        if lt.line < nt.line then pure left
        else throwE (errAt "Term can only start an expression" nt)
      else do
        let post ← advance
        let nx := nx.addMeta post
        -- ldInfix
        let right ← run f nx.binding
        loopLed f rbp ((nx.add (some left)).add (some right))
    else pure left

def nudOf : Nat → Node → M Node
  | 0, _ => throwE .fuel
  | f+1, self =>
    match self.nud with
    | .none => throwE .panic
    | .term => pure self
    | .inner => do
      let exp ← run f 0
      skipToken [T_RPAREN]
      pure exp
    | .prefix => do
      let v ← run f (self.binding + 20)
      pure (self.add (some v))
    | .import_ => do
      let s ← acceptChild T_STRING
      skipToken [T_AS]
      let i ← acceptChild T_IDENTIFIER
      pure ((self.add (some s)).add (some i))
    | .sink => do
      let name ← acceptChild T_IDENTIFIER
      let self ← sinkAttrs f (self.add (some name))
      innerStatements f self
    | .func => do
      let self ← (do
        if (← curId) = T_IDENTIFIER then do
          let i ← acceptChild T_IDENTIFIER
          pure (self.add (some i))
        else pure self)
      skipToken [T_LPAREN]
      let params ← mkNode T_PARAMS none
      let params ← exprList f [T_RPAREN] params
      skipToken [T_RPAREN]
      innerStatements f (self.add (some params))
    | .return_ => do
      let st ← tokOf self
      let nt ← tokOf (← cur)
      if st.line = nt.line then do
        let v ← run f 0
        pure (self.add (some v))
      else pure self
    | .identifier => parseMore f self self
    | .list => do
      let st ← mkNode T_LIST self.tok
      let st ← exprList f [T_RBRACK] st
      skipToken [T_RBRACK]
      pure st
    | .map => do
      let st ← mkNode T_MAP self.tok
      let st ← exprList f [T_RBRACE] st
      skipToken [T_RBRACE]
      pure st
    | .guard => do
      let self ← guardAndStatements f self
      let self ← elifs f self
      if (← curId) = T_ELSE then do
        skipToken [T_ELSE]
        let g ← mkNode T_GUARD none
        let tr ← mkNode T_TRUE none
        innerStatements f (self.add (some (g.add (some tr))))
      else pure self
    | .loop => do
      let exp ← withBraceBlock (run f 0)
      let et ← tokOf exp
      let g ← (if et.id != T_IN then (do let g ← mkNode T_GUARD none; pure (g.add (some exp))) else pure exp)
      innerStatements f (self.add (some g))
    | .try_ => do
      let tr ← innerStatements f self
      let tr ← excepts f tr
      let tr ← (do
        if (← curId) = T_OTHERWISE then do
          let o ← acceptChild T_OTHERWISE
          let o ← innerStatements f o
          pure (tr.add (some o))
        else pure tr)
      if (← curId) = T_FINALLY then do
        let fi ← acceptChild T_FINALLY
        let fi ← innerStatements f fi
        pure (tr.add (some fi))
      else pure tr
    | .mutex => do
      let i ← acceptChild T_IDENTIFIER
      innerStatements f (self.add (some i))
    | .block => innerStatements f self

/-- "expression, optional comma" loops (lists, maps, call arguments, params) -/
def exprList : Nat → List Nat → Node → M Node
  | 0, _, _ => throwE .fuel
  | f+1, stop, acc => do
    if ← isNotEndAndNotTokens stop then do
      let e ← run f 0
      skipComma
      exprList f stop (acc.add (some e))
    else pure acc

def sinkAttrs : Nat → Node → M Node
  | 0, _ => throwE .fuel
  | f+1, self => do
    if ← isNotEndAndNotTokens [T_LBRACE] then do
      let e ← run f 150
      skipComma
      sinkAttrs f (self.add (some e))
    else pure self

def guardAndStatements : Nat → Node → M Node
  | 0, _ => throwE .fuel
  | f+1, self => do
    let exp ← withBraceBlock (run f 0)
    let g ← mkNode T_GUARD none
    innerStatements f (self.add (some (g.add (some exp))))

def elifs : Nat → Node → M Node
  | 0, _ => throwE .fuel
  | f+1, self => do
    if ← isNotEndAndToken T_ELIF then do
      skipToken [T_ELIF]
      let self ← guardAndStatements f self
      elifs f self
    else pure self

def excepts : Nat → Node → M Node
  | 0, _ => throwE .fuel
  | f+1, tr => do
    if ← isNotEndAndToken T_EXCEPT then do
      let ex ← acceptChild T_EXCEPT
      let ex ← exceptTypes f ex
      let id ← curId
      let ex ← (
        if id = T_AS then do
          let a ← acceptChild T_AS
          let i ← acceptChild T_IDENTIFIER
          pure (ex.add (some (a.add (some i))))
        else if id = T_IDENTIFIER then do
          let i ← acceptChild T_IDENTIFIER
          pure (ex.add (some i))
        else pure ex)
      let ex ← innerStatements f ex
      excepts f (tr.add (some ex))
    else pure tr

def exceptTypes : Nat → Node → M Node
  | 0, _ => throwE .fuel
  | f+1, ex => do
    if ← isNotEndAndNotTokens [T_AS, T_IDENTIFIER, T_LBRACE] then do
      let s ← acceptChild T_STRING
      skipComma
      exceptTypes f (ex.add (some s))
    else pure ex

/-- ndIdentifier.parseMore; `self` is the first identifier of the chain (its line decides about `[`) -/
def parseMore : Nat → Node → Node → M Node
  | 0, _, _ => throwE .fuel
  | f+1, self, current => do
    let id ← curId
    if id = T_DOT then do
      skipToken [T_DOT]
      let nx ← acceptChild T_IDENTIFIER
      let nx ← parseMore f self nx
      pure (current.add (some nx))
    else if id = T_LPAREN then do
      skipToken [T_LPAREN]
      let fc ← mkNode T_FUNCCALL none
      let fc ← exprList f [T_RPAREN] fc
      skipToken [T_RPAREN]
      parseMore f self (current.add (some fc))
    else do
      let ct ← tokOf (← cur)
      let st ← tokOf self
      if id = T_LBRACK ∧ ct.line = st.line then do
        skipToken [T_LBRACK]                  -- (be7569d: the error of this skipToken is looked at)
        let ca ← mkNode T_COMPACCESS none
        let e ← run f 0
        skipToken [T_RBRACK]
        parseMore f self (current.add (some (ca.add (some e))))
      else pure current

/-- parseInnerStatements -/
def innerStatements : Nat → Node → M Node
  | 0, _ => throwE .fuel
  | f+1, self => do
    skipToken [T_LBRACE]
    let st ← mkNode T_STATEMENTS none
    let notRbrace ← curIsNot T_RBRACE
    let st ← (
      if notRbrace then do
        let n ← run f 0                       -- `if err != nil { return nil, err }` further down
        let proceed ← curIsNot T_EOF
        if proceed then moreStatements f (st.add (some n)) n
        else pure st
      else pure st)
    skipToken [T_RBRACE]
    pure (self.add (some st))

/-- the `for err == nil && hasMoreStatements(p, n)` loop of parseInnerStatements: the first error ends it -/
def moreStatements : Nat → Node → Node → M Node
  | 0, _, _ => throwE .fuel
  | f+1, st, n => do
    if ← hasMoreStatements n then do
      let id ← curId
      if id = T_SEMICOLON then do
        skipToken [T_SEMICOLON]
        let n' ← run f 0
        moreStatements f (st.add (some n')) n'
      else if id = T_RBRACE then pure st
      else do
        let n' ← run f 0
        moreStatements f (st.add (some n')) n'
    else pure st

/-- the statement loop of ParseWithRuntime -/
def topLoop : Nat → Node → Node → M Node
  | 0, _, _ => throwE .fuel
  | f+1, st, n => do
    if ← hasMoreStatements n then do
      skipOpt T_SEMICOLON
      let n' ← run f 0
      topLoop f (st.add (some n')) n'
    else pure st

end

/-- body of ParseWithRuntime after the look-ahead buffer exists; errors are returned as `Res.err` -/
def parseBody (fuel : Nat) : M Node := do
  let _ ← advance            -- p.node = p.next(); post comments before the first token are dropped
  let n ← run fuel 0
  let n ← (do
    if ← hasMoreStatements n then do
      let st ← mkNode T_STATEMENTS none
      topLoop fuel (st.add (some n)) n
    else pure n)
  match (← getP).node with
  | none => pure n
  | some nx =>
    let t ← tokOf nx
    if t.id != T_EOF then throwE (errAt "Unexpected end" t) else pure n

/-- recursion budget handed to `parseBody`: linear in the number of tokens
    (`Props/C07.lean`, `parse_total`: it is never exhausted) -/
def fuelFor (toks : List Tok) : Nat := 8 * toks.length + 16

/-- the `(n, err)` pair of ParseWithRuntime, assembled as the Go code does it: `n = nil` if `err != nil` -/
def parseToksWith (fuel : Nat) (toks : List Tok) : Option Node × Option Err :=
  match parseBody fuel { toks := toks, node := none } with
  | .ok n _ => (some n, none)
  | .err e _ => (none, some e)

/-- ParseWithRuntime on the token list the lexer produced -/
def parseToks (toks : List Tok) : Option Node × Option Err := parseToksWith (fuelFor toks) toks

/-- number of tokens the parser has taken from the look-ahead buffer when it returns
    (stopping point for the channel model) -/
def consumed (toks : List Tok) : Nat :=
  match parseBody (fuelFor toks) { toks := toks, node := none } with
  | .ok _ p => toks.length - p.toks.length
  | .err _ p => toks.length - p.toks.length

/-- result and number of consumed tokens from ONE run of the parser (what the driver calls) -/
def parseBoth (toks : List Tok) : (Option Node × Option Err) × Nat :=
  match parseBody (fuelFor toks) { toks := toks, node := none } with
  | .ok n p => ((some n, none), toks.length - p.toks.length)
  | .err e p => ((none, some e), toks.length - p.toks.length)

theorem parseBoth_fst (toks : List Tok) : (parseBoth toks).1 = parseToks toks := by
  unfold parseBoth parseToks parseToksWith
  cases parseBody (fuelFor toks) { toks := toks, node := none } <;> rfl

theorem parseBoth_snd (toks : List Tok) : (parseBoth toks).2 = consumed toks := by
  unfold parseBoth consumed
  cases parseBody (fuelFor toks) { toks := toks, node := none } <;> rfl

/-- ParseWithRuntime: (tree?, error?) -/
def parse (input : List Nat) : Option Node × Option Err := parseToks (lex input).toList

end Ecal.Parse
