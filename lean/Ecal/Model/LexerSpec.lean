import Ecal.Model.Lexer
/-!
Specification side of property C18: the *true* line and column of a byte offset, recomputed
from the source text alone (no lexer state), and the classifier of the one known deviation.

`nlBefore inp off`  = number of `'\n'` bytes among the first `off` bytes,
`lineStart inp off` = offset just after the last `'\n'` among the first `off` bytes (0 if none),
`lineOf` / `colOf`  = what a user sees: lines and columns count from 1, columns in bytes.

The definitions recurse on the offset so that "one more byte consumed" is a definitional step;
`Ecal.Props.C18.nlBefore_eq_count` ties `nlBefore` to the textbook `(take off).count 10`.
-/
namespace Ecal.Lex.Spec
open Ecal.Lex

def nlBefore (inp : Bytes) : Nat → Nat
  | 0 => 0
  | n+1 => nlBefore inp n + (if inp.getD n 0 = 10 then 1 else 0)

def lineStart (inp : Bytes) : Nat → Nat
  | 0 => 0
  | n+1 => if inp.getD n 0 = 10 then n + 1 else lineStart inp n

def lineOf (inp : Bytes) (off : Nat) : Nat := nlBefore inp off + 1
def colOf (inp : Bytes) (off : Nat) : Int := (off : Int) - (lineStart inp off : Int) + 1

/-- Classifier of the known finding `hash-comment-column`, on the token list the lexer produced:
    the last newline before offset `off` is the final byte of a `#` comment token. -/
def afterHashComment (inp : Bytes) (toks : List Tok) (off : Nat) : Bool :=
  let ls := lineStart inp off
  ls > 0 && toks.any fun c => c.id = tPOSTCOMMENT && c.pos + c.val.length = ls && c.val.getLast? = some 10

end Ecal.Lex.Spec
