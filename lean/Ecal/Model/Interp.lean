/-!
# Model of string interpolation (`interpreter/rt_value.go`, `stringValueRuntime.Eval`)

Strings are byte lists (`List Nat`), as in Go. `ev` is the evaluation of the code
between the markers to its replacement text (`fmt.Sprint` of the value, or
`#<error message>`); nothing is assumed about it.

`segments` follows the loop of `stringValueRuntime.Eval`:
`GetInfix(rest, "{{", "}}")` finds the first `{{` and the first `}}` *after* it;
without either the rest of the literal is copied verbatim.
-/
namespace Ecal.Interp

abbrev Str := List Nat

/-- `{` and `}` -/
def lb : Nat := 123
def rb : Nat := 125

/-- split at the first `{{` : (text before, text after the marker) -/
def splitOpen : Str → Option (Str × Str)
  | [] => none
  | 123 :: 123 :: rest => some ([], rest)
  | c :: rest => (splitOpen rest).map fun (a, b) => (c :: a, b)

/-- split at the first `}}` -/
def splitClose : Str → Option (Str × Str)
  | [] => none
  | 125 :: 125 :: rest => some ([], rest)
  | c :: rest => (splitClose rest).map fun (a, b) => (c :: a, b)

theorem splitOpen_len : ∀ {s a b}, splitOpen s = some (a, b) → b.length + 2 ≤ s.length := by
  intro s
  induction s using splitOpen.induct with
  | case1 => intro a b h; simp [splitOpen] at h
  | case2 rest => intro a b h; simp [splitOpen] at h; obtain ⟨_, rfl⟩ := h; simp
  | case3 c rest hne ih =>
    intro a b h
    rw [splitOpen] at h
    · cases hr : splitOpen rest with
      | none => simp [hr] at h
      | some p => obtain ⟨a', b'⟩ := p; simp [hr] at h; obtain ⟨_, rfl⟩ := h; have := ih hr; simp; omega
    · intro rest' h1 h2; exact hne rest' h1 h2

theorem splitClose_len : ∀ {s a b}, splitClose s = some (a, b) → b.length + 2 ≤ s.length := by
  intro s
  induction s using splitClose.induct with
  | case1 => intro a b h; simp [splitClose] at h
  | case2 rest => intro a b h; simp [splitClose] at h; obtain ⟨_, rfl⟩ := h; simp
  | case3 c rest hne ih =>
    intro a b h
    rw [splitClose] at h
    · cases hr : splitClose rest with
      | none => simp [hr] at h
      | some p => obtain ⟨a', b'⟩ := p; simp [hr] at h; obtain ⟨_, rfl⟩ := h; have := ih hr; simp; omega
    · intro rest' h1 h2; exact hne rest' h1 h2

/-- the segmentation of a literal: a function of the literal alone -/
inductive Seg where
  | text (s : Str)
  | code (c : Str)
  deriving Repr, DecidableEq

def segments (s : Str) : List Seg :=
  match h1 : splitOpen s with
  | none => [Seg.text s]
  | some (before, afterOpen) =>
    match h2 : splitClose afterOpen with
    | none => [Seg.text s]                       -- no closing marker after the opening one: rest verbatim
    | some (code, afterClose) => Seg.text before :: Seg.code code :: segments afterClose
termination_by s.length
decreasing_by
  have := splitOpen_len h1; have := splitClose_len h2; omega

theorem segments_none {s : Str} (h : splitOpen s = none) : segments s = [Seg.text s] := by
  rw [segments]; split
  · rfl
  · simp_all

theorem segments_open_only {s a b : Str} (h1 : splitOpen s = some (a, b)) (h2 : splitClose b = none) :
    segments s = [Seg.text s] := by
  rw [segments]; split
  · rfl
  · rename_i a' b' h1'; rw [h1] at h1'; cases h1'
    split
    · rfl
    · simp_all

theorem segments_both {s a b c d : Str} (h1 : splitOpen s = some (a, b)) (h2 : splitClose b = some (c, d)) :
    segments s = Seg.text a :: Seg.code c :: segments d := by
  rw [segments]; split
  · simp_all
  · rename_i a' b' h1'; rw [h1] at h1'; cases h1'
    split
    · simp_all
    · rename_i c' d' h2'; rw [h2] at h2'; cases h2'; rfl

/-- fuel-indexed (structurally recursive) twin of `segments`, used so that concrete
    instances can be evaluated by the kernel (`decide`) -/
def segmentsF : Nat → Str → List Seg
  | 0, s => [Seg.text s]
  | fuel + 1, s =>
    match splitOpen s with
    | none => [Seg.text s]
    | some (before, afterOpen) =>
      match splitClose afterOpen with
      | none => [Seg.text s]
      | some (code, afterClose) => Seg.text before :: Seg.code code :: segmentsF fuel afterClose

theorem segmentsF_eq : ∀ (f : Nat) (s : Str), s.length ≤ f → segmentsF f s = segments s := by
  intro f
  induction f with
  | zero =>
    intro s h
    have : s = [] := List.eq_nil_of_length_eq_zero (by omega)
    subst this
    simp [segmentsF, segments_none (show splitOpen [] = none from rfl)]
  | succ f ih =>
    intro s h
    unfold segmentsF
    cases h1 : splitOpen s with
    | none => simp [segments_none h1]
    | some p =>
      obtain ⟨a, b⟩ := p
      cases h2 : splitClose b with
      | none => rw [segments_open_only h1 h2]; simp only [h2]
      | some q =>
        obtain ⟨c, d⟩ := q
        have := splitOpen_len h1
        have := splitClose_len h2
        rw [segments_both h1 h2]; simp only [h2]; rw [ih d (by omega)]

theorem segments_fuel (s : Str) : segments s = segmentsF s.length s := (segmentsF_eq _ s (Nat.le_refl _)).symm


/-- the replacement of one segment -/
def Seg.out (ev : Str → Str) : Seg → Str
  | Seg.text t => t
  | Seg.code c => ev c

/-- one-pass interpolation of an interpolating (non-raw) literal -/
def interp (ev : Str → Str) (s : Str) : Str :=
  (segments s).flatMap (Seg.out ev)

/-- evaluation of a string literal: raw literals are returned untouched -/
def evalLiteral (allowEscapes : Bool) (ev : Str → Str) (s : Str) : Str :=
  if allowEscapes then interp ev s else s

/-- the code segments of a segmentation, in order -/
def codes : List Seg → List Str
  | [] => []
  | Seg.text _ :: rest => codes rest
  | Seg.code c :: rest => c :: codes rest

/-- the expressions that get evaluated, in order: depends on the literal only -/
def evaluated (s : Str) : List Str := codes (segments s)

/-- one step of the instrumented interpolation -/
def logStep (ev : Str → Str) (acc : Str × List Str) : Seg → Str × List Str
  | Seg.text t => (acc.1 ++ t, acc.2)
  | Seg.code c => (acc.1 ++ ev c, acc.2 ++ [c])

/-- instrumented interpolation: output and the log of calls made to `ev` -/
def interpLog (ev : Str → Str) (s : Str) : Str × List Str :=
  (segments s).foldl (logStep ev) ([], [])

/-- the literal text a segment was cut from -/
def Seg.src : Seg → Str
  | Seg.text t => t
  | Seg.code c => 123 :: 123 :: c ++ [125, 125]

/-- `needle` occurs in `s` as a contiguous sublist -/
def hasOpen : Str → Bool
  | [] => false
  | 123 :: 123 :: _ => true
  | _ :: rest => hasOpen rest

def hasClose : Str → Bool
  | [] => false
  | 125 :: 125 :: _ => true
  | _ :: rest => hasClose rest

end Ecal.Interp
