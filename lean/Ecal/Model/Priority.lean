/-!
# Model for C10 — priorities order execution; the first failing rule ends a trigger sequence

Core-only, executable. Four parts, each following the Go code named next to it:

* `Heap`    — `container/heap` (`up`, `down`, `Init`, `Push`, `Pop`, `Fix`) over a slice,
              generic in the `Less` function; loops are fuel-indexed (fuel = slice length).
* `Rules`   — `eventProcessor.ProcessEvent`: sort by priority, run in order, stop after the
              first error when `failOnFirstError` is set (engine/processor.go).
* `Queue`   — `sortutil.PriorityQueue` as used by `engine.TaskQueue` (one queue per root
              monitor): `(priority clamped at 0, insertion counter)`, pop = least.
* `Book`    — `RootMonitor` bookkeeping (engine/monitor.go): `incomplete`, `priorities`
              (`sortutil.IntHeap` with `RemoveFirst`), `Activate` / `Skip` / `Finish`,
              `HighestPriority`.
* `Cascade` — one worker executing the events of one root monitor (used by the correspondence).
-/
namespace Ecal.Priority

/-! ## container/heap over a slice (list), generic in `Less` -/
namespace Heap
variable {α : Type}

/-- `h.Swap(i, j)`; both indices are always in range in `container/heap` -/
def swp (l : List α) (i j : Nat) : List α :=
  match l[i]?, l[j]? with
  | some x, some y => (l.set i y).set j x
  | _, _ => l

/-- `h.Less(i, j)` -/
def lessAt (lt : α → α → Bool) (l : List α) (i j : Nat) : Bool :=
  match l[i]?, l[j]? with
  | some x, some y => lt x y
  | _, _ => false

/-- `up(h, j)`: `for { i := (j-1)/2; if i == j || !h.Less(j, i) { break }; h.Swap(i, j); j = i }` -/
def up (lt : α → α → Bool) : Nat → List α → Nat → List α
  | 0, l, _ => l
  | fuel + 1, l, j =>
    let i := (j - 1) / 2
    if i == j || !lessAt lt l j i then l
    else up lt fuel (swp l i j) i

/-- `down(h, i0, n)` started at `i`; returns the slice and `i > i0` -/
def down (lt : α → α → Bool) : Nat → List α → (i0 i n : Nat) → List α × Bool
  | 0, l, i0, i, _ => (l, decide (i0 < i))
  | fuel + 1, l, i0, i, n =>
    let j1 := 2 * i + 1
    if n ≤ j1 then (l, decide (i0 < i))
    else
      let j := if j1 + 1 < n && lessAt lt l (j1 + 1) j1 then j1 + 1 else j1
      if !lessAt lt l j i then (l, decide (i0 < i))
      else down lt fuel (swp l i j) i0 j n

/-- the loop of `Init`: `down(h, i, n)` for `i = k-1, …, 0` -/
def initLoop (lt : α → α → Bool) : Nat → List α → List α
  | 0, l => l
  | k + 1, l => initLoop lt k (down lt l.length l k k l.length).1

/-- `heap.Init(h)`: `n := h.Len(); for i := n/2 - 1; i >= 0; i-- { down(h, i, n) }` -/
def init (lt : α → α → Bool) (l : List α) : List α := initLoop lt (l.length / 2) l

/-- `heap.Push(h, x)`: `h.Push(x); up(h, h.Len()-1)` -/
def push (lt : α → α → Bool) (l : List α) (x : α) : List α :=
  up lt (l.length + 1) (l ++ [x]) l.length

/-- `heap.Fix(h, i)`: `if !down(h, i, h.Len()) { up(h, i) }` -/
def fix (lt : α → α → Bool) (l : List α) (i : Nat) : List α :=
  let r := down lt l.length l i i l.length
  if r.2 then r.1 else up lt (i + 1) r.1 i

/-- `heap.Pop(h)`: `n := h.Len()-1; h.Swap(0, n); down(h, 0, n); return h.Pop()` -/
def pop (lt : α → α → Bool) (l : List α) : Option (α × List α) :=
  match l with
  | [] => none
  | _ :: _ =>
    let n := l.length - 1
    let l1 := (down lt n (swp l 0 n) 0 0 n).1
    match l1[n]? with
    | some x => some (x, l1.take n)
    | none => none

end Heap

/-! ## (a) rule execution for one event — engine/processor.go `ProcessEvent` -/

/-- a triggered, non-suppressed rule: its priority and whether its action returns an error -/
structure Rule where
  name  : Nat
  prio  : Int
  fails : Bool
  deriving Repr, DecidableEq, Inhabited

/-- `RuleSlice.Less(i, j) = s[i].Priority < s[j].Priority`; as a non-strict order for sorting -/
def Rule.le (a b : Rule) : Bool := decide (a.prio ≤ b.prio)

/-- One admissible result of `SortRuleSlice` (`sort.Sort`, *not* stable; the input order comes
    out of a map iteration): any permutation in non-decreasing priority order. -/
structure IsPrioSort (sort : List Rule → List Rule) : Prop where
  perm   : ∀ l, (sort l).Perm l
  sorted : ∀ l, (sort l).Pairwise (fun a b => a.prio ≤ b.prio)

/-- insert before the first rule whose priority number is not smaller -/
def insertRule (r : Rule) : List Rule → List Rule
  | [] => [r]
  | x :: xs => if r.prio ≤ x.prio then r :: x :: xs else x :: insertRule r xs

/-- the sort used when the model is *executed* (stable insertion sort) -/
def stableSort : List Rule → List Rule
  | [] => []
  | r :: rs => insertRule r (stableSort rs)

/-- the execution loop:
    `for _, rule := range rulesExecuting { if err := rule.Action(…); err != nil { errors[rule.Name] = err };
       if p.failOnFirstError && len(errors) > 0 { break } }`
    returns (rules whose action was started, in order; rules in the error map) -/
def execLoop (failFirst : Bool) : List Rule → List Rule → List Rule × List Rule
  | [], errs => ([], errs)
  | r :: rs, errs =>
    let errs' := if r.fails then errs ++ [r] else errs
    if failFirst && !errs'.isEmpty then ([r], errs')
    else
      let res := execLoop failFirst rs errs'
      (r :: res.1, res.2)

/-- `ProcessEvent` after matching/suppression: sort, then run -/
def processRules (sort : List Rule → List Rule) (failFirst : Bool) (rules : List Rule) :
    List Rule × List Rule :=
  execLoop failFirst (sort rules) []

/-- life-cycle calls on a processor before the measured event (engine/processor.go) -/
inductive LOp where
  | start | finish | reset | addRules
  | setFlag (b : Bool)          -- `SetFailOnFirstErrorInTriggerSequence(b)`
  deriving Repr, DecidableEq, Inhabited

/-- the part of `eventProcessor` the life cycle touches: `failOnFirstError`, whether the pool
    runs, whether the rule index holds the rules -/
structure Proc where
  flag    : Bool := false       -- `NewProcessor` starts with `false`; `NewECALRuntimeProvider` sets `true`
  running : Bool := false
  loaded  : Bool := false
  deriving Repr, DecidableEq, Inhabited

/-- `Start`, `Finish`, `Reset` (new rule index; refused while running), `AddRule` (refused while
    running), `SetFailOnFirstErrorInTriggerSequence`: only the last one writes `failOnFirstError` -/
def Proc.step (p : Proc) : LOp → Proc
  | .start => { p with running := true }
  | .finish => { p with running := false }
  | .reset => if p.running then p else { p with loaded := false }
  | .addRules => if p.running then p else { p with loaded := true }
  | .setFlag b => { p with flag := b }

def Proc.run (p : Proc) (ops : List LOp) : Proc := ops.foldl Proc.step p

/-- `ProcessEvent` on a processor with a history -/
def processRulesAfter (sort : List Rule → List Rule) (p : Proc) (history : List LOp)
    (rules : List Rule) : List Rule × List Rule :=
  processRules sort (p.run history).flag rules

/-- non-decreasing priorities (adjacent pairs) -/
def sortedB : List Rule → Bool
  | [] => true
  | [_] => true
  | a :: b :: t => decide (a.prio ≤ b.prio) && sortedB (b :: t)

/-- Validator used where the order among equal priorities is free (the correspondence then
    *checks* an observed run instead of predicting it): `exec` = names of the started rules in
    order, `errs` = names in the error report, for the triggered `rules` (name = position).
    It completes the observed start order to a candidate sort result (the started rules, then the
    others sorted), checks that this is a permutation of the rules in non-decreasing priority
    order, and that the model's loop run on it starts exactly `exec` and reports exactly `errs`
    (as a set). `validRun_sound` / `validRun_complete`: it accepts exactly the runs of
    `processRules` under *some* admissible sort. -/
def validRun (flag : Bool) (rules : List Rule) (exec errs : List Nat) : Bool :=
  let execR := exec.filterMap fun i => rules[i]?
  let rest := rules.filter fun r => !exec.contains r.name
  let cand := execR ++ stableSort rest
  cand.isPerm rules && sortedB cand &&
  ((execLoop flag cand []).1.map (·.name) == exec) &&
  ((execLoop flag cand []).2.map (·.name)).isPerm errs

/-- specification function: the prefix up to and including the first failing rule -/
def uptoFirstFail : List Rule → List Rule
  | [] => []
  | r :: rs => if r.fails then [r] else r :: uptoFirstFail rs

/-! ## (b) the per-cascade priority queue — sortutil.PriorityQueue inside engine.TaskQueue -/

/-- `pqItem`: value (here: the id of the task's monitor), priority, insertion order -/
structure Item where
  prio : Int
  seq  : Nat
  val  : Nat
  deriving Repr, DecidableEq, Inhabited

/-- `priorityQueueHeap.Less` -/
def Item.lt (a b : Item) : Bool :=
  if a.prio ≠ b.prio then decide (a.prio < b.prio) else decide (a.seq < b.seq)

/-- the queue of one root monitor: its items (in insertion order) and `orderCounter` -/
structure PQ where
  items   : List Item := []
  counter : Nat := 0
  deriving Repr, Inhabited

/-- `PriorityQueue.Push`: `if priority < 0 { priority = 0 }`, item gets `orderCounter`, counter++ -/
def PQ.push (q : PQ) (val : Nat) (prio : Int) : PQ :=
  { items := q.items ++ [{ prio := if prio < 0 then 0 else prio, seq := q.counter, val := val }],
    counter := q.counter + 1 }

/-- the least item w.r.t. `Item.lt` (first one among equals — there are none in a reachable queue) -/
def minItem : List Item → Option Item
  | [] => none
  | x :: xs =>
    match minItem xs with
    | none => some x
    | some m => if m.lt x then some m else some x

/-- `PriorityQueue.Pop` (with the default `MinPriority` = −1, which disables the threshold) -/
def PQ.pop (q : PQ) : Option (Item × PQ) :=
  match minItem q.items with
  | none => none
  | some m => some (m, { q with items := q.items.erase m })

/-- `sortutil.PriorityQueue` in its real representation: the `priorityQueueHeap` slice managed by
    container/heap (`heap.Push` / `heap.Pop` with `Less = Item.lt`) and `orderCounter` -/
structure HPQ where
  heap    : List Item := []
  counter : Nat := 0
  deriving Repr, Inhabited

/-- `PriorityQueue.Push`: clamp, `heap.Push(pq.heap, &pqItem{value, priority, pq.orderCounter, 0})`, counter++ -/
def HPQ.push (q : HPQ) (val : Nat) (prio : Int) : HPQ :=
  { heap := Heap.push Item.lt q.heap { prio := if prio < 0 then 0 else prio, seq := q.counter, val := val },
    counter := q.counter + 1 }

/-- `PriorityQueue.Pop`: `nil` on an empty heap, otherwise `heap.Pop(pq.heap)` -/
def HPQ.pop (q : HPQ) : Option (Item × HPQ) :=
  match Heap.pop Item.lt q.heap with
  | none => none
  | some (x, h) => some (x, { q with heap := h })

/-- `PriorityQueue.Peek` (default `MinPriority`): the root of the heap -/
def HPQ.peek (q : HPQ) : Option Item := q.heap.head?

/-- `PriorityQueue.Clear`: fresh slice, `orderCounter = 0` -/
def HPQ.clear (_ : HPQ) : HPQ := {}

/-- `TaskQueue.queues`: root monitor id ↦ queue -/
abbrev TQ := List (Nat × PQ)

def TQ.get (t : TQ) (root : Nat) : PQ :=
  match t.find? (·.1 == root) with
  | some e => e.2
  | none => {}

def TQ.set (t : TQ) (root : Nat) (q : PQ) : TQ :=
  (root, q) :: t.filter (·.1 != root)

/-- `TaskQueue.Push`: into the queue of the task's root monitor, with the monitor's priority -/
def TQ.push (t : TQ) (root : Nat) (val : Nat) (prio : Int) : TQ :=
  t.set root ((t.get root).push val prio)

/-- `TaskQueue.Pop` once the (randomly chosen) non-empty queue is `root` -/
def TQ.pop (t : TQ) (root : Nat) : Option (Item × TQ) :=
  match (t.get root).pop with
  | none => none
  | some (m, q) => some (m, t.set root q)

/-- an event of a `TaskQueue` trace recorded at the hook points `queue.push` / `queue.pop` -/
inductive QEv where
  | push (root : Nat) (prio : Int) (mon : Nat)
  | pop  (root : Nat) (mon : Nat)
  deriving Repr, DecidableEq, Inhabited

/-- replay a trace on the model; `some k` = the `k`-th event is a pop that did not return the
    model's least item of that root -/
def checkTrace : TQ → Nat → List QEv → Option Nat
  | _, _, [] => none
  | t, k, .push root prio mon :: rest => checkTrace (t.push root mon prio) (k + 1) rest
  | t, k, .pop root mon :: rest =>
    match t.pop root with
    | some (m, t') => if m.val == mon then checkTrace t' (k + 1) rest else some k
    | none => some k

/-- the state after a trace, if every pop returned the model's least item of its root
    (`checkTrace` = this, reporting the position of the first offending pop) -/
def runTrace : TQ → List QEv → Option TQ
  | t, [] => some t
  | t, .push root prio mon :: rest => runTrace (t.push root mon prio) rest
  | t, .pop root mon :: rest =>
    match t.pop root with
    | some (m, t') => if m.val == mon then runTrace t' rest else none
    | none => none

/-- `Push` without the clamp (what the property's "lowest priority number" asks for when a monitor
    priority is negative; used only to recognise a repaired tree, see `queue_clamps_negative_priorities`) -/
def PQ.pushRaw (q : PQ) (val : Nat) (prio : Int) : PQ :=
  { items := q.items ++ [{ prio := prio, seq := q.counter, val := val }], counter := q.counter + 1 }

def checkTraceRaw : TQ → Nat → List QEv → Option Nat
  | _, _, [] => none
  | t, k, .push root prio mon :: rest => checkTraceRaw (t.set root ((t.get root).pushRaw mon prio)) (k + 1) rest
  | t, k, .pop root mon :: rest =>
    match t.pop root with
    | some (m, t') => if m.val == mon then checkTraceRaw t' (k + 1) rest else some k
    | none => some k

/-- the same replay on the real representation (`HPQ`: container/heap on the slice) -/
def checkTraceH : List (Nat × HPQ) → Nat → List QEv → Option Nat
  | _, _, [] => none
  | t, k, .push root prio mon :: rest =>
    let q := ((t.find? (·.1 == root)).map (·.2)).getD {}
    checkTraceH ((root, q.push mon prio) :: t.filter (·.1 != root)) (k + 1) rest
  | t, k, .pop root mon :: rest =>
    let q := ((t.find? (·.1 == root)).map (·.2)).getD {}
    match q.pop with
    | some (m, q') =>
      if m.val == mon then checkTraceH ((root, q') :: t.filter (·.1 != root)) (k + 1) rest else some k
    | none => some k

/-! ## (c) root-monitor bookkeeping — engine/monitor.go -/
namespace Book

/-- `IntHeap.Less` -/
def ilt (a b : Int) : Bool := decide (a < b)

/-- `IntHeap.RemoveFirst(r)`: delete the first occurrence **by shifting the tail**
    (`append(h[:i], h[i+1:]...)`), then `heap.Fix(h, i)`; if it is the last element: truncate. -/
def removeFirst (h : List Int) (r : Int) : List Int :=
  let i := h.idxOf r
  if i < h.length then
    if i + 1 < h.length then Heap.fix ilt (h.eraseIdx i) i else h.take i
  else h

/-- `monitorBase` flags -/
structure Mon where
  prio      : Int
  activated : Bool := false
  finished  : Bool := false
  skipped   : Bool := false
  deriving Repr, DecidableEq, Inhabited

/-- variants of the code: the current tree has both repairs of commit 5e0512e -/
structure Cfg where
  /-- `heap.Init(rm.priorities)` after `RemoveFirst` -/
  reheap    : Bool
  /-- `descendantFinished` ignores skipped monitors (`m.activated && !m.skipped`) -/
  skipGuard : Bool
  deriving Repr, DecidableEq

def current : Cfg := { reheap := true, skipGuard := true }
def beforeFix : Cfg := { reheap := false, skipGuard := false }

/-- `RootMonitor`: `incomplete` (map: absent = `none`), `priorities`, and all monitors of the
    cascade (index 0 = the root monitor itself, priority 0) -/
structure RM where
  incomplete : Int → Option Int := fun _ => none
  priorities : List Int := []
  mons       : List Mon := [{ prio := 0 }]

inductive Op where
  | newChild (p : Int)        -- `NewChildMonitor(p)`
  | activate (m : Nat)        -- `Activate(event)` on monitor `m`
  | skip     (m : Nat)        -- `Skip(event)`
  | finish   (m : Nat)        -- `Finish()`
  deriving Repr, DecidableEq, Inhabited

def upd (f : Int → Option Int) (p : Int) (v : Option Int) : Int → Option Int :=
  fun x => if x = p then v else f x

/-- `descendantActivated(priority)` -/
def descActivated (s : RM) (p : Int) : RM :=
  match s.incomplete p with
  | none => { s with incomplete := upd s.incomplete p (some 1),
                     priorities := Heap.push ilt s.priorities p }
  | some v => { s with incomplete := upd s.incomplete p (some (v + 1)) }

/-- the priority part of `descendantFinished(m)`; `m` is the monitor *after* `finished = true` -/
def descFinished (cfg : Cfg) (s : RM) (m : Mon) : RM :=
  if m.activated && !(cfg.skipGuard && m.skipped) then
    -- `rm.incomplete[priority]--` (a missing key reads as 0 and is created)
    let v := (s.incomplete m.prio).getD 0 - 1
    if v == 0 then
      let h := removeFirst s.priorities m.prio
      { s with priorities := if cfg.reheap then Heap.init ilt h else h,
               incomplete := upd s.incomplete m.prio none }
    else { s with incomplete := upd s.incomplete m.prio (some v) }
  else s

/-- one API call; `none` = an `errorutil.AssertTrue` of monitor.go panics (or no such monitor) -/
def step (cfg : Cfg) (s : RM) : Op → Option RM
  | .newChild p => some { s with mons := s.mons ++ [{ prio := p }] }
  | .activate k =>
    match s.mons[k]? with
    | none => none
    | some m =>
      if m.finished || m.activated then none
      else
        let s1 := descActivated s m.prio
        some { s1 with mons := s.mons.set k { m with activated := true } }
  | .skip k =>
    match s.mons[k]? with
    | none => none
    | some m =>
      if m.finished || m.activated then none
      else
        let m' := { m with activated := true, skipped := true, finished := true }
        let s1 := descFinished cfg s m'
        some { s1 with mons := s.mons.set k m' }
  | .finish k =>
    match s.mons[k]? with
    | none => none
    | some m =>
      if !m.activated || m.finished then none
      else
        let m' := { m with finished := true }
        let s1 := descFinished cfg s m'
        some { s1 with mons := s.mons.set k m' }

def run (cfg : Cfg) : RM → List Op → Option RM
  | s, [] => some s
  | s, op :: ops =>
    match step cfg s op with
    | none => none
    | some s' => run cfg s' ops

/-- root of the heap, if any -/
def highest? (s : RM) : Option Int := s.priorities.head?

/-- `HighestPriority()`: `if len(*rm.priorities) > 0 { return (*rm.priorities)[0] }; return -1` -/
def highestPriority (s : RM) : Int := (highest? s).getD (-1)

/-- the truth the property talks about: activated by a triggering event and not finished -/
def Mon.active (m : Mon) : Bool := m.activated && !m.skipped && !m.finished

/-- number of active monitors with priority `p` -/
def cnt (s : RM) (p : Int) : Nat := s.mons.countP (fun m => m.active && m.prio == p)

/-- least priority among the active monitors (what `HighestPriority` has to report) -/
def trueHighest? (s : RM) : Option Int := ((s.mons.filter Mon.active).map Mon.prio).min?

end Book

/-! ## one worker running the cascade of one root monitor: `ProcessEvent` composed with the queue -/
namespace Cascade
open Book

/-- a scripted event: `parent = some (e, k)`: it is added by the action of rule number `k` of event
    `e` (`none`: added from outside before the worker starts); the priority of its child monitor
    (`none`: the event is added with the root monitor itself); the rules it triggers as
    (priority, fails) in declaration order (`[]`: no rule triggers, the event is skipped) -/
structure Node where
  parent : Option (Nat × Nat)
  prio   : Option Int
  rules  : List (Int × Bool)
  deriving Repr, Inhabited

def Node.trig (n : Node) : Bool := !n.rules.isEmpty

/-- the rules triggered by event `idx`; the name of a rule is its position in the declaration -/
def rulesOf (nodes : List Node) (idx : Nat) : List Rule :=
  ((nodes[idx]?.map (·.rules)).getD []).zipIdx.map fun p => { name := p.2, prio := p.1.1, fails := p.1.2 }

structure St where
  rm      : RM := {}
  q       : PQ := {}
  monOf   : List (Nat × Nat) := []             -- event ↦ monitor index
  popped  : List Nat := []                     -- events taken by the worker, reversed
  started : List ((Nat × Nat) × Int) := []     -- ((event, rule), HighestPriority() at the start of the action), reversed
  errs    : List (Nat × Nat) := []             -- (event, rule) in the error report
  bad     : Bool := false                      -- the model hit an assertion (never for generated scripts)

/-- `proc.AddEvent(ev, parent.NewChildMonitor(prio))` resp. `proc.AddEvent(ev, root)`: a triggering
    event activates its monitor and is queued with the monitor's priority, another one is skipped.
    (`bad` records an assertion of the monitor API; the queue does not depend on it.) -/
def addEvent (cfg : Cfg) (s : St) (idx : Nat) (n : Node) : St :=
  let (rm1, k) := match n.prio with
    | some p => ((step cfg s.rm (.newChild p)).getD s.rm, s.rm.mons.length)
    | none => (s.rm, 0)
  let prio := n.prio.getD 0          -- the root monitor has priority 0
  if n.trig then
    let (rm2, ok) := match step cfg rm1 (.activate k) with
      | some r => (r, true)
      | none => (rm1, false)
    { s with rm := rm2, q := s.q.push idx prio, monOf := (idx, k) :: s.monOf, bad := s.bad || !ok }
  else
    let (rm2, ok) := match step cfg rm1 (.skip k) with
      | some r => (r, true)
      | none => (rm1, false)
    { s with rm := rm2, bad := s.bad || !ok }

/-- the scripted events selected by `sel`, with their indices, in script order -/
def kidsOf (nodes : List Node) (sel : Node → Bool) : List (Node × Nat) :=
  nodes.zipIdx.filter (fun p => sel p.1)

def addAll (cfg : Cfg) (nodes : List Node) (sel : Node → Bool) (s : St) : St :=
  (kidsOf nodes sel).foldl (fun s p => addEvent cfg s p.2 p.1) s

/-- the action of rule `r` of event `idx` is started: sample `HighestPriority`, add the events
    this rule adds (a failing rule adds them before it returns its error) -/
def runRule (cfg : Cfg) (nodes : List Node) (idx : Nat) (s : St) (r : Rule) : St :=
  addAll cfg nodes (fun n => n.parent == some (idx, r.name))
    { s with started := ((idx, r.name), highestPriority s.rm) :: s.started }

/-- the worker loop: pop an event; `ProcessEvent` = `processRules` (sort, run in order, stop after
    the first error when the flag is set) — only the started rules add their events; finish the
    monitor; the error map goes into the error report -/
def loop (cfg : Cfg) (sort : List Rule → List Rule) (flag : Bool) (nodes : List Node) : Nat → St → St
  | 0, s => s
  | fuel + 1, s =>
    match s.q.pop with
    | none => s
    | some (it, q') =>
      let idx := it.val
      let res := processRules sort flag (rulesOf nodes idx)
      let s2 := res.1.foldl (runRule cfg nodes idx) { s with q := q', popped := idx :: s.popped }
      let k := ((s2.monOf.find? (·.1 == idx)).map (·.2)).getD 0
      let (rm3, ok) := match step cfg s2.rm (.finish k) with
        | some r => (r, true)
        | none => (s2.rm, false)
      loop cfg sort flag nodes fuel
        { s2 with rm := rm3, errs := res.2.map (fun r => (idx, r.name)) ++ s2.errs, bad := s2.bad || !ok }

def runScript (cfg : Cfg) (sort : List Rule → List Rule) (flag : Bool) (nodes : List Node) : St :=
  loop cfg sort flag nodes (nodes.length + 1) (addAll cfg nodes (fun n => n.parent.isNone) {})

end Cascade
end Ecal.Priority
