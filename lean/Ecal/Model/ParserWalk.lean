import Ecal.Model.ParserWFS
/-!
`walkable : Node → Bool` — a transcription of the UNGUARDED dereferences the consumers of a parse tree make
(`grep -n 'Children\[' interpreter/*.go parser/prettyprinter.go`; every consumer also ranges over
`Children` and dereferences each child, hence "no nil child"). A dereference two levels down
(`Children[0].Children[0].Token`) is always made after a test of the child's NAME, and the child's own
clause — keyed by the same name — provides it; so every clause is local and `walkable` is the conjunction
over all nodes. `Props/C07.lean`, `wellformed_walkable`: `WellFormedS t → walkable t`.
The transcription itself is trusted (and tested: the harness runs PrettyPrint and ParseWithRuntime +
Validate of the real interpreter on every returned tree under recover).
-/
namespace Ecal.Parse
open Ecal.Lex

/-- `n.Children[k]` (none = index out of range or nil) -/
def kid (n : Node) (k : Nat) : Option Node := (n.children[k]?).join
/-- `n.Children[k]` can be dereferenced -/
def has (n : Node) (k : Nat) : Bool := (kid n k).isSome
/-- `n.Children[k].Token` can be dereferenced -/
def tokAt (n : Node) (k : Nat) : Bool := match kid n k with | some c => c.tok.isSome | none => false

/-- the dereferences made at a node of this name -/
def derefOk (n : Node) : Bool :=
  match kindOf n.name with
  | .terminal => true
  -- rt_general.go:307-433 (operands and, for the error text, their tokens), rt_boolean.go:356-360 (like),
  -- rt_assign.go:43-92 (:=), rt_value.go:189-195 (kvp), rt_func.go:166-171 (preset), rt_statements.go:178/366 (in)
  | .binary => tokAt n 0 && tokAt n 1
  | .plusminus => tokAt n 0 && (n.children.length < 2 || tokAt n 1)       -- unary or binary form
  | .prefix1 => tokAt n 0        -- rt_general.go:247-286 (not), rt_assign.go:46/209 (let), rt_sink.go:48-175 (attributes)
  -- guard: rt_statements.go:94/229, prettyprinter.go:627; compaccess: rt_identifier.go:324; as: rt_statements.go:639/665
  | .one => has n 0 && (n.name != "as" || tokAt n 0)
  | .return_ => n.children.length = 0 || has n 0                           -- rt_func.go:55
  | .import_ => has n 0 && has n 1                                         -- rt_general.go:148-159
  | .identifier => true                                                    -- children are ranged over
  | .if_ => n.children.length % 2 = 0                                      -- rt_statements.go:94-100 (offset, offset+1)
  | .loop => has n 0 && has n 1                                            -- rt_statements.go:176-317
  | .try_ => has n 0                                                       -- rt_statements.go:525-535 (Children[len-1], Children[0])
  -- rt_statements.go:628-645: Children[0]; two children, the first not a string: Children[0].Token
  | .except => has n 0 && (n.children.length != 2 ||
      (match kid n 0 with | some a => a.name = "string" || a.tok.isSome | none => false))
  | .blockOnly => has n 0                                                  -- rt_statements.go:527/591
  -- rt_func.go:101-139: Children[0] (its token if it is the name), params, body
  | .function => match kid n 0 with
    | some a => if a.name = "identifier" then a.tok.isSome && has n 1 && has n 2 else has n 1
    | none => false
  | .sink => tokAt n 0                                                     -- rt_sink.go:171 (Children[0].Token), :48/:175 (Children[1:])
  | .mutex => tokAt n 0 && has n 1                                         -- rt_statements.go:711/766
  | .container => true
  | .unknown => true      -- no runtime component / no template: an error, not a dereference

mutual
def walkable : Node → Bool
  | .mk nm t b x l cs ms => derefOk (.mk nm t b x l cs ms) && kidsWalk cs
def kidsWalk : List (Option Node) → Bool
  | [] => true
  | none :: _ => false
  | some c :: r => walkable c && kidsWalk r
end

end Ecal.Parse
