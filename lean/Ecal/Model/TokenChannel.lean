/-!
Producer/consumer transition system of the token channel of `ParseWithRuntime`
(parser/lexer.go `Lex`/`(*lexer).run`, parser/helper.go `NewLABuffer`/`Next`/`drain`).

* producer (the lexer goroutine): sends its `toSend` tokens one by one on an UNBUFFERED channel
  (a send completes only together with a receive), then closes the channel and terminates;
* consumer (the goroutine that called `ParseWithRuntime`): receives through the look-ahead buffer
  while parsing and may stop after ANY number of receives (success, or an error anywhere) —
  the 3-slot ring and its prefetch are over-approximated by "any number of receives";
  a receive on the closed channel returns at once;
* on return the deferred `p.tokens.drain()` (fix f2d708b) receives until the channel is closed.
  `drain := false` is the code before that fix.
-/
namespace Ecal.Chan

inductive Prod where | running | terminated deriving DecidableEq, Repr
inductive Cons where | parsing | draining | returned deriving DecidableEq, Repr

structure St where
  toSend : Nat
  prod : Prod
  cons : Cons
  deriving DecidableEq, Repr

inductive Ev where
  | recv        -- consumer (parsing) receives: a token (rendezvous with the producer's send) or "closed"
  | close       -- producer: nothing left to send → close(l.tokens), goroutine ends
  | stop        -- consumer: the parse function reaches a return statement
  | drainRecv   -- deferred drain takes one token
  | drainEnd    -- deferred drain sees the closed channel; ParseWithRuntime has returned
  deriving DecidableEq, Repr

def init (n : Nat) : St := ⟨n, .running, .parsing⟩

/-- one step; `none` = the event is not enabled in this state -/
def step (drain : Bool) (s : St) : Ev → Option St
  | .recv =>
    if s.cons = .parsing then
      if 0 < s.toSend ∧ s.prod = .running then some { s with toSend := s.toSend - 1 }
      else if s.prod = .terminated then some s        -- receive on a closed channel
      else none                                       -- blocks until the producer closes
    else none
  | .close =>
    if s.prod = .running ∧ s.toSend = 0 then some { s with prod := .terminated } else none
  | .stop =>
    if s.cons = .parsing then some { s with cons := if drain then .draining else .returned } else none
  | .drainRecv =>
    if s.cons = .draining ∧ 0 < s.toSend ∧ s.prod = .running then some { s with toSend := s.toSend - 1 } else none
  | .drainEnd =>
    if s.cons = .draining ∧ s.prod = .terminated then some { s with cons := .returned } else none

/-- run a list of events (`none` if one of them is not enabled) -/
def exec (drain : Bool) : St → List Ev → Option St
  | s, [] => some s
  | s, e :: es => match step drain s e with
    | some s' => exec drain s' es
    | none => none

def allEv : List Ev := [.recv, .close, .stop, .drainRecv, .drainEnd]

/-- some goroutine can move -/
def canMove (drain : Bool) (s : St) : Bool := allEv.any fun e => (step drain s e).isSome

/-- deterministic schedule used by the driver: the consumer receives `k` times (or until the
    channel is closed), stops, then everything that can still run runs. Result state. -/
def schedule (drain : Bool) (n k : Nat) : St :=
  let rec parsePhase : Nat → St → St
    | 0, s => s
    | k+1, s =>
      match step drain s .recv with
      | some s' => parsePhase k s'
      | none => match step drain s .close with
        | some s' => parsePhase k s'
        | none => s
  let rec rest : Nat → St → St
    | 0, s => s
    | f+1, s =>
      match [Ev.drainRecv, .close, .drainEnd].findSome? (step drain s) with
      | some s' => rest f s'
      | none => s
  let s := parsePhase k (init n)
  match step drain s .stop with
  | some s' => rest (n + 3) s'
  | none => s

/-- verdict of the model for one call: the lexer goroutine is still there after the return -/
def leaks (drain : Bool) (n k : Nat) : Bool :=
  let s := schedule drain n k
  !(s.cons = .returned ∧ s.prod = .terminated)

end Ecal.Chan
