/-!
Producer/consumer transition system of the token channel of `ParseWithRuntime`
(parser/lexer.go `Lex`/`(*lexer).run`, parser/helper.go `NewLABuffer`/`Next`/`drain`).

* producer (the lexer goroutine): sends its `toSend` tokens one by one on an UNBUFFERED channel
  (a send completes only together with a receive), then closes the channel and terminates;
* consumer (the goroutine that called `ParseWithRuntime`): receives through the look-ahead buffer
  while parsing and may stop after ANY number of receives (success, or an error anywhere) —
  the 3-slot ring and its prefetch are over-approximated by "any number of receives";
  a receive on the closed channel returns at once;
* on return the deferred `p.tokens.drain()` (fix f2d708b) receives until the channel is closed:
  mode `sync` (the code as it is). Mode `none` is the code before that fix; mode `async` is the
  variant in which `drain` hands the rest of the channel to a helper goroutine and returns at once.

The property "nothing outlives the call" is about the state AT THE RETURN EVENT: the producer has
terminated and no helper goroutine of the parser exists.
-/
namespace Ecal.Chan

/-- the producer: still sending / about to close (`running`), past its `close(l.tokens)` — its LAST channel
    operation and, by the extracted fact `closeLastInRun`, the last statement of `(*lexer).run` — with only
    the return of the goroutine left (`closed`), gone (`terminated`) -/
inductive Prod where | running | closed | terminated deriving DecidableEq, Repr
inductive Cons where | parsing | draining | returned deriving DecidableEq, Repr
inductive Mode where | sync | async | none deriving DecidableEq, Repr

structure St where
  toSend : Nat
  prod : Prod
  cons : Cons
  helper : Bool := false      -- a drain goroutine started by the parser is alive
  deriving DecidableEq, Repr

inductive Ev where
  | recv        -- consumer (parsing) receives: a token (rendezvous with the producer's send) or "closed"
  | close       -- producer: nothing left to send → close(l.tokens)
  | exit        -- producer: returns from run (needs nobody else)
  | stop        -- consumer: the parse function reaches a return statement
  | drainRecv   -- deferred synchronous drain takes one token
  | drainEnd    -- deferred synchronous drain sees the closed channel; ParseWithRuntime has returned
  | helpRecv    -- asynchronous drain goroutine takes one token
  | helpEnd     -- asynchronous drain goroutine sees the closed channel and ends
  deriving DecidableEq, Repr

def init (n : Nat) : St := ⟨n, .running, .parsing, false⟩

/-- one step; `none` = the event is not enabled in this state -/
def step (m : Mode) (s : St) : Ev → Option St
  | .recv =>
    if s.cons = .parsing then
      if 0 < s.toSend ∧ s.prod = .running then some { s with toSend := s.toSend - 1 }
      else if s.prod ≠ .running then some s           -- receive on a closed channel
      else none                                       -- blocks until the producer closes
    else none
  | .close =>
    if s.prod = .running ∧ s.toSend = 0 then some { s with prod := .closed } else none
  | .exit =>
    if s.prod = .closed then some { s with prod := .terminated } else none
  | .stop =>
    if s.cons = .parsing then
      match m with
      | .sync => some { s with cons := .draining }
      | .async => some { s with cons := .returned, helper := true }   -- `go func() { for range … }()`; return
      | .none => some { s with cons := .returned }
    else none
  | .drainRecv =>
    if s.cons = .draining ∧ 0 < s.toSend ∧ s.prod = .running then some { s with toSend := s.toSend - 1 } else none
  | .drainEnd =>
    -- `for range b.tokens` ends when it OBSERVES THE CLOSED CHANNEL (not "when the producer is gone")
    if s.cons = .draining ∧ s.prod ≠ .running then some { s with cons := .returned } else none
  | .helpRecv =>
    if s.helper = true ∧ 0 < s.toSend ∧ s.prod = .running then some { s with toSend := s.toSend - 1 } else none
  | .helpEnd =>
    if s.helper = true ∧ s.prod ≠ .running then some { s with helper := false } else none

/-- run a list of events (`none` if one of them is not enabled) -/
def exec (m : Mode) : St → List Ev → Option St
  | s, [] => some s
  | s, e :: es => match step m s e with
    | some s' => exec m s' es
    | none => none

def allEv : List Ev := [.recv, .close, .exit, .stop, .drainRecv, .drainEnd, .helpRecv, .helpEnd]

/-- some goroutine can move -/
def canMove (m : Mode) (s : St) : Bool := allEv.any fun e => (step m s e).isSome

/-- what the property demands at the return: no helper goroutine, and the producer is past its last channel
    operation (channel closed) — it needs no partner any more and is gone after its own `exit` step -/
def clean (s : St) : Bool := s.prod != .running && !s.helper

/-- the drain mode selected by the synchronisation skeleton extracted from the source (`Gen/C07.lean`) -/
def modeOf (drainMode : String) : Option Mode :=
  if drainMode = "sync" then some .sync else if drainMode = "async" then some .async
  else if drainMode = "none" then some .none else none

/-- deterministic schedule used by the driver: the consumer receives `k` times (or until the
    channel is closed), stops, and the deferred drain runs until the call has returned.
    Result: the state at the return event. -/
def schedule (m : Mode) (n k : Nat) : St :=
  let rec parsePhase : Nat → St → St
    | 0, s => s
    | k+1, s =>
      match step m s .recv with
      | some s' => parsePhase k s'
      | none => match step m s .close with
        | some s' => parsePhase k s'
        | none => s
  let rec rest : Nat → St → St
    | 0, s => s
    | f+1, s =>
      if s.cons = .returned then s
      else match [Ev.drainRecv, .close, .drainEnd].findSome? (step m s) with
        | some s' => rest f s'
        | none => s
  let s := parsePhase k (init n)
  match step m s .stop with
  | some s' => rest (n + 3) s'
  | none => s

/-- verdict of the model for one call: something of the parser is still there at the return -/
def leaks (m : Mode) (n k : Nat) : Bool :=
  let s := schedule m n k
  !(s.cons = .returned ∧ clean s = true)

end Ecal.Chan
