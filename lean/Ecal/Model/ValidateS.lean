import Ecal.Model.Eval
/-!
C06 — `validateS`: a structural (fuel-indexed) twin of `Ecal.Ev.validate` (which is a `partial def` of the shared
model and therefore opaque to proofs). Same order of checks: the children first (first error wins, a nil child is
a Go nil dereference), then the node's own checks. The C06 driver runs THIS function (and cross-checks it against
`Ecal.Ev.validate` on every case), so `validate_never_panics` (`Ecal/Lemmas/C06Validate.lean`) is about what is
compared with Go's `Validate`.
-/
namespace Ecal.ValidateS
open Ecal.Ev
open Ecal.Parse (Node)

/-- `Children[0]` -/
def child0 (n : Node) : Except Sig Node :=
  match n.children[0]? with
  | some (some x) => .ok x
  | _ => .error Sig.panic

/-- every entry of a destructuring list is an identifier (for loop variables: without an access path) -/
def allIdent (err : Sig) (needEmpty : Bool) : List (Option Node) → Except Sig Unit
  | [] => .ok ()
  | none :: _ => .error Sig.panic
  | some c :: r =>
    if c.name != "identifier" || (needEmpty && !c.children.isEmpty) then .error err else allIdent err needEmpty r

def target (err : Sig) (l : Node) : Except Sig Unit :=
  if l.name == "identifier" then .ok ()
  else if l.name == "list" then allIdent err false l.children
  else .error err

/-- the node's own checks (after its children) -/
def own (n : Node) : Except Sig Unit :=
  if !(knownNodes.contains n.name) then .error (rtErr "Invalid construct" n)
  else if n.name = ":=" then do
    let l0 ← child0 n
    let l ← (if l0.name == "let" then child0 l0 else pure l0)
    target (rtErr "Cannot access variable" n) l
  else if n.name = "let" then do
    let l ← child0 n
    target (rtErr "Invalid construct" n) l
  else if n.name = "loop" then do
    let c0 ← child0 n
    if c0.name == "in" then do
      let iv ← child0 c0
      if iv.name == "identifier" then
        (if !iv.children.isEmpty then .error (rtErr "Invalid construct" n) else .ok ())
      else if iv.name == "list" then allIdent (rtErr "Invalid construct" n) true iv.children
      else .ok ()
    else .ok ()
  else if n.name = "sink" ∨ n.name = "import" ∨ n.name = "mutex" ∨ n.name = "like" then
    .error (Sig.unsupported s!"node {n.name}")
  else .ok ()

def kidsV (f : Node → Except Sig Unit) : List (Option Node) → Except Sig Unit
  | [] => .ok ()
  | none :: _ => .error Sig.panic
  | some c :: r => do f c; kidsV f r

def validateS : Nat → Node → Except Sig Unit
  | 0, _ => .error Sig.fuel
  | k+1, n => do kidsV (validateS k) n.children; own n

end Ecal.ValidateS
