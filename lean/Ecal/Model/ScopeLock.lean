import Ecal.Model.Conc
/-!
# ScopeLock — the lock discipline of the scope tree, with a fault outcome

scope/varsscope.go: every scope holds a pointer to a lock; `SetParentOfScope` and `NewChild` make
the child adopt the lock of its parent, so a whole scope tree — the declaring scope and the
scopes of all invocations linked to it — shares ONE lock `G`. Every exported method that touches
storage / parent / children takes that lock first (regenerated fact `Ecal.Gen.C11.scopeLocking`).

Model: a thread (an invocation) executes a list of operations `acq | rel | acc`; `acc` is an
access to the storage of a scope of the shared tree. The step function has a **fault outcome**:
an access by a thread that does not hold `G` is an unsynchronised access (in Go: a data race, for
the storage map the runtime's fatal "concurrent map read and map write") and sets `faulted`.
A blocked `acq` leaves the state unchanged.

* `never_faults`: if every thread's program is well bracketed (every access between an `acq` and
  the matching `rel` — what "exported methods lock" gives), no interleaving of any number of
  threads ever faults, and at most one thread is inside.
* `no_deadlock`: in every reachable state in which some thread has work left, some thread can
  take a step that changes the state. (`SetParentOfScope` takes the child's own lock and then
  the parent's: the child's lock is not yet shared with anybody — the scope is fresh and
  unlinked — so the only contended lock is `G`, and nobody waits while holding it.)
* `unadopted_lock_faults` (witness): if a child keeps its own lock (lock not adopted), its access
  to the parent's storage is an `acc` outside `G`: a two-thread interleaving faults.
-/
namespace Ecal.ScopeLock
open Ecal.Conc

inductive Op | acq | rel | acc
  deriving DecidableEq, Repr, Inhabited

structure KLoc where
  prog    : List Op
  holding : Bool := false
  faulted : Bool := false
  deriving DecidableEq, Repr, Inhabited

/-- the shared cell: who holds the lock of the scope tree -/
abbrev Owner := Option Nat

def lockStep (t : Nat) (g : Unit → Owner) (l : KLoc) : (Unit → Owner) × KLoc :=
  match l.prog with
  | [] => (g, l)
  | .acq :: r => if g () = none then (fun _ => some t, { l with prog := r, holding := true }) else (g, l)
  | .rel :: r => (fun _ => none, { l with prog := r, holding := false })
  | .acc :: r => if g () = some t then (g, { l with prog := r }) else (g, { l with prog := r, faulted := true })

def lockSys : Sys Unit Owner KLoc := ⟨lockStep⟩

/-- well bracketed from the flag "holds the lock": no access outside, no nested acquire, nothing held at the end -/
def wb : Bool → List Op → Bool
  | h, [] => !h
  | false, .acq :: r => wb true r
  | true, .acq :: _ => false
  | true, .rel :: r => wb false r
  | false, .rel :: _ => false
  | true, .acc :: r => wb true r
  | false, .acc :: _ => false

def Inv (s : State Unit Owner KLoc) : Prop :=
  ∀ t, wb (s.locals t).holding (s.locals t).prog = true ∧ (s.locals t).faulted = false ∧
       ((s.locals t).holding = true ↔ s.shared () = some t)

theorem inv_step (s : State Unit Owner KLoc) (u : Nat) (h : Inv s) : Inv (run lockSys s [u]) := by
  simp only [run, lockSys]
  obtain ⟨hwb, hf, hh⟩ := h u
  cases hp : (s.locals u).prog with
  | nil =>
    have : lockStep u s.shared (s.locals u) = (s.shared, s.locals u) := by simp [lockStep, hp]
    rw [this]
    intro t
    by_cases htu : t = u
    · subst htu; simpa [setLocal] using h t
    · simpa [setLocal, htu] using h t
  | cons op r =>
    cases op with
    | acq =>
      cases hhold : (s.locals u).holding with
      | true => simp [hp, hhold, wb] at hwb
      | false =>
        cases hg : s.shared () with
        | some o =>
          have : lockStep u s.shared (s.locals u) = (s.shared, s.locals u) := by simp [lockStep, hp, hg]
          rw [this]
          intro t
          by_cases htu : t = u
          · subst htu; simpa [setLocal] using h t
          · simpa [setLocal, htu] using h t
        | none =>
          have : lockStep u s.shared (s.locals u) =
              (fun _ => some u, { (s.locals u) with prog := r, holding := true }) := by
            simp [lockStep, hp, hg]
          rw [this]
          intro t
          by_cases htu : t = u
          · subst htu
            simp only [setLocal, if_true]
            refine ⟨by simpa [hp, hhold, wb] using hwb, hf, by simp⟩
          · obtain ⟨a, b, c⟩ := h t
            simp only [setLocal, if_neg htu]
            refine ⟨a, b, ?_⟩
            constructor
            · intro ht; rw [c.mp ht] at hg; simp at hg
            · intro ht; simp at ht; exact absurd ht.symm htu
    | rel =>
      cases hhold : (s.locals u).holding with
      | false => simp [hp, hhold, wb] at hwb
      | true =>
        have hgu : s.shared () = some u := hh.mp hhold
        have : lockStep u s.shared (s.locals u) =
            (fun _ => none, { (s.locals u) with prog := r, holding := false }) := by simp [lockStep, hp]
        rw [this]
        intro t
        by_cases htu : t = u
        · subst htu
          simp only [setLocal, if_true]
          exact ⟨by simpa [hp, hhold, wb] using hwb, hf, by simp⟩
        · obtain ⟨a, b, c⟩ := h t
          simp only [setLocal, if_neg htu]
          refine ⟨a, b, ?_⟩
          constructor
          · intro ht; have := c.mp ht; rw [hgu] at this; simp at this; exact absurd this.symm htu
          · intro ht; simp at ht
    | acc =>
      cases hhold : (s.locals u).holding with
      | false => simp [hp, hhold, wb] at hwb
      | true =>
        have hgu : s.shared () = some u := hh.mp hhold
        have : lockStep u s.shared (s.locals u) = (s.shared, { (s.locals u) with prog := r }) := by
          simp [lockStep, hp, hgu]
        rw [this]
        intro t
        by_cases htu : t = u
        · subst htu
          simp only [setLocal, if_true]
          exact ⟨by simpa [hp, hhold, wb] using hwb, hf, by simpa [hhold] using hgu⟩
        · simpa [setLocal, htu] using h t

theorem inv_run (sched : List Nat) : ∀ s, Inv s → Inv (run lockSys s sched) := by
  induction sched with
  | nil => intro s h; simpa [run] using h
  | cons u sched ih =>
    intro s h
    have := ih _ (inv_step s u h)
    simpa [run] using this

/-- **never_faults.** Well-bracketed programs, any number of threads, any schedule: no thread ever
    performs an unsynchronised access, and the lock has at most one holder. -/
theorem never_faults (progs : Nat → List Op) (hwb : ∀ t, wb false (progs t) = true) (sched : List Nat) :
    let fin := run lockSys ⟨fun _ => none, fun t => { prog := progs t }⟩ sched
    (∀ t, (fin.locals t).faulted = false) ∧
    (∀ t t', (fin.locals t).holding = true → (fin.locals t').holding = true → t = t') := by
  intro fin
  have h := inv_run sched ⟨fun _ => none, fun t => { prog := progs t }⟩
    (fun t => ⟨hwb t, rfl, by simp⟩)
  refine ⟨fun t => (h t).2.1, ?_⟩
  intro t t' ht ht'
  have a := (h t).2.2.mp ht
  have b := (h t').2.2.mp ht'
  rw [a] at b
  simpa using b

/-- **no_deadlock.** In every reachable state in which some thread still has operations left, some
    thread's next step makes progress (consumes one of its operations). -/
theorem no_deadlock (progs : Nat → List Op) (hwb : ∀ t, wb false (progs t) = true) (sched : List Nat)
    (t : Nat) :
    let s := run lockSys ⟨fun _ => none, fun t => { prog := progs t }⟩ sched
    (s.locals t).prog ≠ [] →
      ∃ u, ((lockSys.step u s.shared (s.locals u)).2).prog.length < (s.locals u).prog.length := by
  intro s hne
  have h : Inv s := inv_run sched ⟨fun _ => none, fun t => { prog := progs t }⟩
    (fun t => ⟨hwb t, rfl, by simp⟩)
  cases hg : s.shared () with
  | none =>
    -- the lock is free: t itself can step (its next operation is an acquire)
    refine ⟨t, ?_⟩
    obtain ⟨a, _, c⟩ := h t
    have hh : (s.locals t).holding = false := by
      cases hx : (s.locals t).holding with
      | false => rfl
      | true => have := c.mp hx; rw [hg] at this; simp at this
    cases hp : (s.locals t).prog with
    | nil => exact absurd hp hne
    | cons op r =>
      rw [hp, hh] at a
      cases op with
      | acq => simp [lockSys, lockStep, hp, hg]
      | rel => simp [wb] at a
      | acc => simp [wb] at a
  | some o =>
    -- the holder can always step: it has operations left and none of them waits
    refine ⟨o, ?_⟩
    obtain ⟨a, _, c⟩ := h o
    have hh : (s.locals o).holding = true := c.mpr hg
    cases hp : (s.locals o).prog with
    | nil => rw [hp, hh] at a; simp [wb] at a
    | cons op r =>
      rw [hp, hh] at a
      cases op with
      | acq => simp [wb] at a
      | rel => simp [lockSys, lockStep, hp]
      | acc => simp [lockSys, lockStep, hp, hg]

/-- **unadopted_lock_faults** (witness). A child that keeps its own lock reads the parent's storage
    while holding only that private lock — for the shared tree that is an access outside `G`
    (program `[acc]`); the owner of the tree is inside `G`: the access is unsynchronised. -/
theorem unadopted_lock_faults :
    ((run lockSys ⟨fun _ => none, fun t => if t = 0 then { prog := [.acq, .acc, .rel] } else { prog := [.acc] }⟩
        [0, 1, 0, 0]).locals 1).faulted = true := by decide

end Ecal.ScopeLock
