import Ecal.Model.Bridge
/-!
# Reference semantics of bridged calls inside ECAL programs (interpreter side of the bridge)

`interpreter/rt_identifier.go`, `resolveFunction`: the argument expressions of a call are
evaluated left to right, each to a value, and the function object is run on exactly these
values. A call site can be *re-entered* while its own arguments are still being evaluated
(recursion through an argument expression, concurrent evaluations of one AST): every
activation nevertheless owns its argument vector.

The model is a small expression language — integer constants, variables, `+`, `-`, calls of
bridged Go functions (through `Ecal.Bridge.run`, which also says what the Go function
RECEIVES) and calls of user functions `f(p…) := if p₀ == 0 then base else step` — evaluated
with an explicit log of the argument vectors received by the bridged functions, in call order.
`fuel` bounds the nesting depth (expression depth + recursion depth).
-/
namespace Ecal.Reentry
open Ecal.Bridge

mutual
inductive Expr where
  | num (n : Int)
  | var (x : String)
  | add (a b : Expr)
  | sub (a b : Expr)
  | callB (f : String) (args : Args)     -- a bridged Go function
  | callU (f : String) (args : Args)     -- a user (ECAL) function
inductive Args where
  | nil
  | cons (e : Expr) (rest : Args)
end

structure FnDef where
  name : String
  params : List String
  base : Expr
  step : Expr

/-- the integer a Go value denotes -/
def valInt : Val → Int
  | .int _ n => n
  | .f64 x => (x.trunc).getD 0
  | .f32 x => (x.trunc).getD 0
  | _ => 0

/-- the bridged functions the harness registers: they return the sum of what they received -/
def bridgedSig : String → Option Sig
  | "rid" => some ⟨[.f64], false, [.f64]⟩
  | "radd" => some ⟨[.f64, .f64], false, [.f64]⟩
  | "radd3" => some ⟨[.int .int, .int .int64, .f64], false, [.f64]⟩
  | "rmix" => some ⟨[.int .uint8, .f64, .int .int32], false, [.int .int64]⟩
  | _ => none

def sumBody (res : Ty) (l : List Val) : BodyOut :=
  let s := (l.map valInt).foldl (· + ·) 0
  match res with
  | .int k => .ret [.int k s]
  | _ => .ret [.f64 (Num.ofInt s)]

def allTrue : Shape := { recovers := true, arityChecked := true, nilPanicReported := true }

/-- one bridged call on already evaluated arguments: result and the vector the Go function received -/
def bridged (f : String) (vs : List Int) : Option (Int × List Val) :=
  match bridgedSig f with
  | none => none
  | some sig =>
    let args := vs.map fun v => Val.f64 (Num.ofInt v)
    match reaches (fun _ _ => 0) sig args,
          run allTrue (fun _ _ => 0) (.fn sig (sumBody (sig.results.headD .f64))) args with
    | some recv, .done (.one r) none => some (valInt r, recv)
    | _, _ => none

abbrev Log := List (List Val)

mutual
def eval (fns : List FnDef) : Nat → List (String × Int) → Expr → Log → Option (Int × Log)
  | 0, _, _, _ => none
  | _ + 1, _, .num n, log => some (n, log)
  | _ + 1, env, .var x, log => (env.lookup x).map fun v => (v, log)
  | fuel + 1, env, .add a b, log =>
    match eval fns fuel env a log with
    | some (x, log) => (eval fns fuel env b log).map fun (y, log) => (x + y, log)
    | none => none
  | fuel + 1, env, .sub a b, log =>
    match eval fns fuel env a log with
    | some (x, log) => (eval fns fuel env b log).map fun (y, log) => (x - y, log)
    | none => none
  | fuel + 1, env, .callB f args, log =>
    -- the arguments first (whatever they log, whatever sites they re-enter) …
    match evalArgs fns fuel env args log with
    | some (vs, log) =>
      -- … then this activation runs the Go function on the values of ITS OWN argument expressions
      (bridged f vs).map fun (r, recv) => (r, log ++ [recv])
    | none => none
  | fuel + 1, env, .callU f args, log =>
    match evalArgs fns fuel env args log, fns.find? (·.name == f) with
    | some (vs, log), some d =>
      let env' := d.params.zip vs
      if vs.headD 0 == 0 then eval fns fuel env' d.base log else eval fns fuel env' d.step log
    | _, _ => none
def evalArgs (fns : List FnDef) : Nat → List (String × Int) → Args → Log → Option (List Int × Log)
  | 0, _, _, _ => none
  | _ + 1, _, .nil, log => some ([], log)
  | fuel + 1, env, .cons e rest, log =>
    match eval fns fuel env e log with
    | some (v, log) => (evalArgs fns fuel env rest log).map fun (vs, log) => (v :: vs, log)
    | none => none
end

/-- The `callB` clause of the reference semantics, spelled out (a restatement of the definition, not a
    fact about `resolveFunction`; the evidence that the interpreter follows this semantics is the
    correspondence run in mode R): whatever the evaluation of the argument expressions does — re-enter
    this call site, log other calls — the Go function of this activation is run on the values `vs` of
    its own argument expressions. -/
theorem reference_semantics_callB (fns : List FnDef) (fuel : Nat)
    (env : List (String × Int)) (f : String) (args : Args) (log log' : Log)
    (vs : List Int) (r : Int) (recv : List Val)
    (ha : evalArgs fns fuel env args log = some (vs, log'))
    (hb : bridged f vs = some (r, recv)) :
    eval fns (fuel + 1) env (.callB f args) log = some (r, log' ++ [recv]) := by
  simp [eval, ha, hb]

end Ecal.Reentry
