/-!
# Model of the Go function bridge (`stdlib/adapter.go`, `ECALFunctionAdapter.Run`)

ECAL values *are* Go values (`nil`, `bool`, `float64`, `string`, `[]interface{}`,
`map[interface{}]interface{}`, function objects), so one type `Val` serves both
sides of the bridge; `Val.ty` is `reflect.TypeOf` (`none` for the nil interface).

`run shape oob target args` follows `Run` statement by statement:

* the deferred closure (`shape` = facts about the source text of `Run`, regenerated
  from `/repo` on every check: is the first statement a `defer` of a closure which
  calls `recover()` and assigns the named result `err`?),
* the argument loop: too-many check (`Shape.arityChecked`: is it in the source?),
  `convertNumber` (by the *kind* of the parameter — a defined type `type D int64` has
  the kind of its underlying type but its own identity), the type check with its
  escape clauses,
* `reflect.Value.Call` — reflect's own panics (wrong number of arguments, zero
  Value, value not assignable) are `panic` INSIDE the recover scope,
* the function body (`body`, universally quantified in the theorems; may panic),
* the result loop: trailing `error`, `convertResultNumber` (by the static kind of
  the result), one result → the value itself, otherwise a list.

Numbers: a float64 is `Num.fin m e` (the real number `m·2^e`), `nan` or `inf`.
A number for a parameter of integer kind is converted by truncation towards zero when the truncated value
is in the range of the kind; otherwise the call is answered with an error (`numberFits`, the range check of
`Run`) — Go would leave the result of such a conversion implementation-defined. The oracle `oob` of
`convertNumber` stands for that implementation-defined value; behind the range check it is never consulted.
`int`, `uint` and `uintptr` are 64 bit wide (amd64/arm64).
-/
namespace Ecal.Bridge

/-! ## Go's integer kinds -/

inductive IntKind where
  | int | int8 | int16 | int32 | int64 | uint | uint8 | uint16 | uint32 | uint64 | uintptr
  deriving DecidableEq, Repr, Inhabited

namespace IntKind
def bits : IntKind → Nat
  | int8 | uint8 => 8
  | int16 | uint16 => 16
  | int32 | uint32 => 32
  | _ => 64

def signed : IntKind → Bool
  | int | int8 | int16 | int32 | int64 => true
  | _ => false

def lo (k : IntKind) : Int := if k.signed then -((2 : Int) ^ (k.bits - 1)) else 0
def hi (k : IntKind) : Int := if k.signed then (2 : Int) ^ (k.bits - 1) - 1 else (2 : Int) ^ k.bits - 1
def inRange (k : IntKind) (n : Int) : Bool := decide (k.lo ≤ n) && decide (n ≤ k.hi)

def all : List IntKind := [int, int8, int16, int32, int64, uint, uint8, uint16, uint32, uint64, uintptr]
end IntKind

/-! ## float64 values -/

/-- a float64 (or float32) value: `fin m e` is the real number `m · 2^e` -/
inductive Num where
  | fin (m e : Int)
  | negZero                  -- -0.0 (`fin 0 e` is +0.0)
  | nan
  | inf (neg : Bool)
  deriving DecidableEq, Repr, Inhabited

def bitLen (n : Nat) : Nat := if n = 0 then 0 else Nat.log2 n + 1

/-- round the significand of `m·2^e` to `p` bits, ties to even -/
def roundSig (p : Nat) (m e : Int) : Int × Int :=
  let a := m.natAbs
  let l := bitLen a
  if l ≤ p then (m, e) else
    let sh := l - p
    let q := a / 2 ^ sh
    let r := a % 2 ^ sh
    let half := 2 ^ (sh - 1)
    let q' := if r > half || (r == half && q % 2 == 1) then q + 1 else q
    ((if m < 0 then -(q' : Int) else (q' : Int)), e + (sh : Int))

namespace Num
/-- Go's `intN(f)` / `uintN(f)` before the range question: truncation towards zero -/
def trunc : Num → Option Int
  | fin m e => some (if 0 ≤ e then m * (2 : Int) ^ e.toNat else m.tdiv ((2 : Int) ^ (-e).toNat))
  | negZero => some 0
  | _ => none

/-- the float64 denotes exactly the integer `n` -/
def IsInt (x : Num) (n : Int) : Prop :=
  ∃ m e, x = fin m e ∧ ((0 ≤ e ∧ n = m * (2 : Int) ^ e.toNat) ∨ (e < 0 ∧ m = n * (2 : Int) ^ (-e).toNat))

/-- `float64(n)` for a Go integer `n`: exact up to 2^53, rounded to nearest-even above -/
def ofInt (n : Int) : Num :=
  if n.natAbs ≤ 2 ^ 53 then fin n 0 else
    let r := roundSig 53 n 0
    fin r.1 r.2

/-- round `m·2^e` to a multiple of `2^E` (for `E > e`), ties to even: the new significand -/
def roundToExp (m : Int) (sh : Nat) : Int :=
  let a := m.natAbs
  let q := a / 2 ^ sh
  let r := a % 2 ^ sh
  let half := 2 ^ (sh - 1)
  let q' := if r > half || (r == half && q % 2 == 1) then q + 1 else q
  if m < 0 then -(q' : Int) else (q' : Int)

/-- the exponent of the last bit float32 keeps for `m·2^e`: 24 significant bits, but never below
    2^-149 (the subnormal range) -/
def f32Exp (m e : Int) : Int :=
  let l : Int := bitLen m.natAbs
  let en := if l > 24 then e + (l - 24) else e
  if en < -149 then -149 else en

/-- `float32(f)` (IEEE round to nearest even): exact when the value fits, rounded to 24 bits / to a
    multiple of 2^-149 otherwise, overflow to ±Inf, underflow to ±0 -/
def toF32 : Num → Num
  | fin m e =>
    let E := f32Exp m e
    if E ≤ e then (if (bitLen m.natAbs : Int) + e > 128 then inf (decide (m < 0)) else fin m e)
    else
      let q := roundToExp m (E - e).toNat
      if q = 0 then (if m < 0 then negZero else fin 0 0)
      else if (bitLen q.natAbs : Int) + E > 128 then inf (decide (m < 0)) else fin q E
  | x => x
end Num

/-! ## Go types and values -/

inductive Ty where
  | int (k : IntKind)
  | f32 | f64 | bool | str
  | iface                      -- interface{}
  | error                      -- the predeclared interface type error
  | ifaceOther (id : Nat)      -- any other interface type
  | slice (elem : Ty)          -- []elem ; `slice iface` = []interface{} = an ECAL list
  | emap                       -- map[interface{}]interface{} = an ECAL map
  | other (id : Nat)           -- any other non-interface type (pointers, structs, funcs …)
  | gmap (k v : Ty)            -- map[k]v other than the ECAL map type
  | named (id : Nat) (under : Ty)   -- a defined type (`type D int64`) with a non-interface underlying type:
                                    -- its own identity, the Kind of `under`
  deriving DecidableEq, Repr, Inhabited

namespace Ty
/-- `t.Kind() == reflect.Interface` -/
def isInterface : Ty → Bool
  | iface | error | ifaceOther _ => true
  | _ => false

def isNumeric : Ty → Bool
  | int _ | f32 | f64 => true
  | _ => false

/-- `[]interface{}` -/
abbrev list : Ty := slice iface
end Ty

mutual
/-- a Go value as held in an `interface{}`; the texts `c` identify contents the bridge never looks at -/
inductive Val where
  | nil                              -- the nil interface (ECAL NULL)
  | bool (b : Bool)
  | int (k : IntKind) (n : Int)
  | f32 (x : Num)
  | f64 (x : Num)                    -- an ECAL number
  | str (c : String)
  | list (c : String)                -- []interface{} (an ECAL list; contents not looked at)
  | map (c : String)                 -- map[interface{}]interface{} (an ECAL map; contents not looked at)
  | foreign (t : Ty) (c : String)    -- any other value of dynamic type `t` (ECAL function objects, errors …)
  | named (id : Nat) (v : Val)       -- the value `v` converted to the defined type `id`
  | seq (t : Ty) (xs : Vals)         -- a Go slice / array of element type `t` (`[]int`, `[3]float32`, `[][]int` …)
  | gomap (kt vt : Ty) (kvs : Vals)  -- a Go map `map[kt]vt`: keys and values alternating
  | elist (xs : Vals)                -- an ECAL list built by the bridge (contents known)
  | emapv (kvs : Vals)               -- an ECAL map built by the bridge: keys and values alternating
  deriving DecidableEq, Repr, Inhabited
inductive Vals where
  | nil
  | cons (v : Val) (vs : Vals)
  deriving DecidableEq, Repr, Inhabited
end

def Vals.toList : Vals → List Val
  | .nil => []
  | .cons v vs => v :: vs.toList

/-- `reflect.TypeOf` -/
def Val.ty : Val → Option Ty
  | .nil => none
  | .bool _ => some .bool
  | .int k _ => some (.int k)
  | .f32 _ => some .f32
  | .f64 _ => some .f64
  | .str _ => some .str
  | .list _ => some .list
  | .map _ => some .emap
  | .foreign t _ => some t
  | .named id v => v.ty.map (Ty.named id)
  | .seq t _ => some (.slice t)
  | .gomap kt vt _ => some (.gmap kt vt)
  | .elist _ => some .list
  | .emapv _ => some .emap

/-- signature of the wrapped function as reflect reports it: `params = In(0..NumIn-1)`
    (for a variadic function the last one is the slice type), `results = Out(0..NumOut-1)` -/
structure Sig where
  params : List Ty
  variadic : Bool
  results : List Ty
  deriving Repr, Inhabited

/-! ## The argument loop -/

/-- `convertNumber`: the switch over `expectedType.Kind()` -/
def convertNumber (oob : IntKind → Num → Int) (x : Num) : Ty → Val
  | .int k =>
    match x.trunc with
    | some n => if k.inRange n then .int k n else .int k (oob k x)
    | none => .int k (oob k x)
  | .f32 => .f32 x.toF32
  | .named _ u => convertNumber oob x u      -- the Kind of a defined type is the Kind of its underlying type
  | _ => .f64 x

inductive BridgeErr where
  | tooMany | wrongType
  deriving DecidableEq, Repr

inductive ArgStep where
  | accept (v : Val)
  | error
  | panic
  deriving DecidableEq, Repr

/-- `numberFits`: can the number be converted into the parameter's type? For the integer kinds (also of a
    defined type) its truncation towards zero must be in the kind's range; NaN and ±Inf never fit. -/
def numberFits (x : Num) : Ty → Bool
  | .int k =>
    match x.trunc with
    | some n => k.inRange n
    | none => false
  | .named _ u => numberFits x u
  | _ => true

/-- the argument is a number that does not fit the parameter's integer kind -/
def outOfRange (expected : Ty) : Val → Bool
  | .f64 x => !numberFits x expected
  | _ => false

/-- one iteration of the loop body after the too-many check and the range check -/
def checkArgCore (oob : IntKind → Num → Int) (expected : Ty) (arg : Val) : ArgStep :=
  -- if float64Arg, ok := arg.(float64); ok { arg = ea.convertNumber(...) }
  let arg := match arg with
    | .f64 x => convertNumber oob x expected
    | a => a
  let given := arg.ty
  -- givenType != expectedType && …
  if given = some expected then .accept arg
  -- !(expectedType.Kind() == Interface && givenType.Kind() == Interface && givenType.Implements(expectedType))
  else if expected.isInterface then
    match given with
    | none => .panic      -- givenType.Kind() on the nil reflect.Type: nil dereference
    | some _ => .error    -- a dynamic type is never of kind Interface: the clause is false, and an interface type is not []interface{}
  -- && expectedType != reflect.TypeOf([]interface{}{})
  else if expected = .list then .accept arg
  else .error

/-- one iteration of the loop body after the too-many check -/
def checkArg (oob : IntKind → Num → Int) (expected : Ty) (arg : Val) : ArgStep :=
  -- if !numberFits(float64Arg, expectedType) { return nil, fmt.Errorf("… is out of its range") }
  if outOfRange expected arg then .error else checkArgCore oob expected arg

inductive Build where
  | ok (fargs : List Val)
  | error (e : BridgeErr)
  | panic
  deriving DecidableEq, Repr

/-- the `for i, arg := range args` loop: `params` = the parameter types from position `i` on.
    `checked` = the source has the explicit arity check (`Shape.arityChecked`); without it
    `funcType.In(i)` panics for `i = NumIn`. -/
def buildArgs (checked : Bool) (oob : IntKind → Num → Int) : List Ty → List Val → Build
  | _, [] => .ok []
  | [], _ :: _ => if checked then .error .tooMany else .panic     -- i == funcType.NumIn()
  | p :: ps, a :: as =>
    match checkArg oob p a with
    | .accept v =>
      match buildArgs checked oob ps as with
      | .ok vs => .ok (v :: vs)
      | r => r
    | .error => .error .wrongType
    | .panic => .panic

/-! ## reflect.Value.Call -/

/-- `xt.AssignableTo(target)` for the dynamic type of an argument (the only targets
    that can differ from the argument's type here are `interface{}` and `[]interface{}`) -/
def assignable (t target : Ty) : Bool := t = target || target = .iface

def valAssignable (v : Val) (target : Ty) : Bool :=
  match v.ty with
  | some t => assignable t target
  | none => false                           -- "reflect: Call using zero Value argument"

def allAssignable : List Val → List Ty → Bool
  | [], [] => true
  | v :: vs, t :: ts => valAssignable v t && allAssignable vs ts
  | _, _ => false                           -- wrong number of arguments

/-- does `Call(fargs)` get as far as invoking the function? (`false` = reflect panics) -/
def callCheck (sig : Sig) (fargs : List Val) : Bool :=
  if sig.variadic then
    match sig.params.getLast? with
    | some (.slice elem) =>
      let n := sig.params.length - 1
      decide (n ≤ fargs.length) && allAssignable (fargs.take n) (sig.params.take n) &&
        (fargs.drop n).all (valAssignable · elem)
    | _ => false                            -- not a function type reflect can produce
  else allAssignable fargs sig.params

/-! ## The result loop -/

inductive BodyOut where
  | ret (vals : List Val)
  | panic
  | panicNil      -- a panic for which `recover()` returns nil: `panic(nil)` in a binary whose main module
                  -- declares go < 1.21 (GODEBUG panicnil=1). With go >= 1.21 semantics `panic(nil)` is an
                  -- ordinary `panic` (of a *runtime.PanicNilError).
  deriving Repr

/-- `float64(v.Int())`, `float64(v.Uint())`, `v.Float()` for a value of a static type of numeric Kind -/
def numericOf : Ty → Val → Option Num
  | .int _, .int _ n => some (Num.ofInt n)
  | .f32, .f32 x => some x
  | .f64, .f64 x => some x
  | .named _ u, .named _ w => numericOf u w
  | _, _ => none

/-- `convertResultNumber`: switch over `v.Kind()`, the kind of the *static* result type; for a result
    declared as an interface (every plugin function: `(interface{}, error)`) the kind of the value in it.
    Only the numeric kinds are converted: a slice, array or map of Go values (`seq`, `gomap`) is passed
    on as it is — see `demandedResult` and the known finding `nested-result-numbers`. -/
def convertResultNumber (static : Ty) (v : Val) : Val :=
  let t := if static.isInterface then v.ty.getD static else static
  match numericOf t v with
  | some x => .f64 x
  | none => v

mutual
/-- What the property's clause "Go integers and floats delivered as ECAL numbers" would demand of a
    result, and what the CANDIDATE repair `fixes/C19-nested-result-numbers.patch` (NOT applied to the
    code) does: a slice / array / map of Go values becomes an ECAL list / map with every element converted
    by its element type; `[]interface{}` and `map[interface{}]interface{}` are ECAL values already and
    are passed on as they are. The code as it is does `convertResultNumber` only. -/
def demandedResult (static : Ty) (v : Val) : Val :=
  match v with
  | .seq t xs => if t = .iface then v else .elist (demandedSeq t xs)
  | .gomap kt vt kvs => .emapv (demandedMap kt vt kvs)
  | v => convertResultNumber static v
def demandedSeq (t : Ty) : Vals → Vals
  | .nil => .nil
  | .cons v vs => .cons (demandedResult t v) (demandedSeq t vs)
def demandedMap (kt vt : Ty) : Vals → Vals
  | .cons k (.cons v rest) => .cons (demandedResult kt k) (.cons (demandedResult vt v) (demandedMap kt vt rest))
  | _ => .nil
end

inductive Err where
  | bridge (e : BridgeErr)
  | recovered                  -- fmt.Errorf("Error: %v", r) made by the deferred closure
  | func (e : Val)             -- the wrapped function's own trailing error value
  deriving DecidableEq, Repr

/-- `for i, v := range vals`: `outs` = the static result types from position `i` on -/
def convertResults : List Val → List Ty → List Val × Option Err
  | [], _ => ([], none)
  | [v], outs =>
    -- i == len(vals)-1 : if funcType.Out(i) == error { if res != nil { err = res.(error) }; break }
    if outs.head? = some Ty.error then ([], if v = .nil then none else some (.func v))
    else ([convertResultNumber (outs.headD .iface) v], none)
  | v :: v' :: vs, outs =>
    let r := convertResults (v' :: vs) outs.tail
    (convertResultNumber (outs.headD .iface) v :: r.1, r.2)

inductive Ret where
  | one (v : Val)
  | many (vs : List Val)
  deriving DecidableEq, Repr

/-- `ret = results; if len(results) == 1 { ret = results[0] }` -/
def packRet : List Val → Ret
  | [v] => .one v
  | vs => .many vs

/-! ## Run -/

/-- what the adapter wraps: `reflect.ValueOf(f)` of a function, or of something else -/
inductive Target where
  | notFunc
  | fn (sig : Sig) (body : List Val → BodyOut)

/-- the body of `Run` after the `defer` statement -/
inductive Raw where
  | ret (r : Ret) (err : Option Err)
  | panic
  | panicNil
  deriving Repr

def runRaw (checked : Bool) (oob : IntKind → Num → Int) : Target → List Val → Raw
  | .notFunc, _ => .panic          -- funcval.Type() / NumIn() / Call of a non-function: reflect panics
  | .fn sig body, args =>
    match buildArgs checked oob sig.params args with
    | .error e => .ret (.one .nil) (some (.bridge e))
    | .panic => .panic
    | .ok fargs =>
      if callCheck sig fargs then
        match body fargs with
        | .panic => .panic
        | .panicNil => .panicNil
        | .ret vals =>
          let r := convertResults vals sig.results
          .ret (packRet r.1) r.2
      else .panic

/-- a fact about the source text, as the extractor (`harness C19 -tool`, go/ast over stdlib/*.go)
    decides it: established, positively refuted, or this source shape is not understood -/
inductive Fact where
  | yes | no | unknown
  deriving DecidableEq, Repr

/-- Only a positively refuted fact breaks a proof obligation. Where a fact is `unknown` the theorems
    are about the code *under the assumption* that it holds; the check then says so in its evidence
    and searches harder (the correspondence run would exhibit the crash / the wrong error). -/
def Fact.notRefuted : Fact → Bool
  | .no => false
  | _ => true

/-- the two facts about `Run` the model depends on (see `Ecal.Gen.C19` for their regenerated values) -/
structure Shape where
  /-- `Run` defers a function (a literal, or a function of the package) whose own body calls
      `recover()` and, when that returned non-nil, assigns `Run`'s named error result (directly or
      through a pointer parameter given `&err`) -/
  recovers : Bool
  /-- before reflect's `Call` the number of arguments is compared with `NumIn()` and surplus
      arguments end in a returned error (in `Run` or in a helper it calls before `Call`) -/
  arityChecked : Bool
  /-- the deferred function reports a panic also when `recover()` returned nil (it tests a completion
      flag of `Run`, not only `recovered != nil`) -/
  nilPanicReported : Bool
  deriving DecidableEq, Repr

inductive Outcome where
  | done (ret : Ret) (err : Option Err)   -- `Run` returned (ret, err)
  | escaped                               -- a panic left `Run`: the interpreter's goroutine dies
  deriving DecidableEq, Repr

def run (shape : Shape) (oob : IntKind → Num → Int) (t : Target) (args : List Val) : Outcome :=
  match runRaw shape.arityChecked oob t args with
  | .ret r e => .done r e
  | .panic => if shape.recovers then .done (.one .nil) (some .recovered) else .escaped
  | .panicNil =>
    if shape.recovers then
      -- recover() stops the panic but returns nil: `if r != nil` alone does not notice it and `Run`
      -- returns its zero results (nil, nil) — a silent NULL
      (if shape.nilPanicReported then .done (.one .nil) (some .recovered) else .done (.one .nil) none)
    else .escaped

/-! ## `executeFunction` (interpreter/rt_identifier.go): how an ECAL program sees the call -/

inductive Seen where
  | value (r : Ret)
  | runtimeError            -- a `*util.RuntimeError` with a non-nil `Type` (the bridge's error wrapped, or the
                            -- function's own): what try/except and sinks can inspect (`rtError.Type.Error()`)
  | brokenRuntimeError      -- a `*util.RuntimeError` whose `Type` is nil handed on as it is: an uncaught call
                            -- reports it, but try/except (rt_statements.go) and the sink error map
                            -- (func_provider.go) dereference `Type` and take the interpreter down
  | crash
  deriving DecidableEq, Repr

/-- what `executeFunction` can run into when it handles the error value a Go function returned -/
inductive ErrKind where
  | plain             -- any error value whose `Error()` returns
  | errorPanics       -- `Error()` panics: a nil pointer whose method dereferences it (the typed-nil slip), a broken implementation
  | runtimeError      -- a proper `*util.RuntimeError` / `*util.RuntimeErrorWithDetail`: passed on, `AddTrace` called
  | nilRuntimeError   -- a nil `*util.RuntimeError` / `*util.RuntimeErrorWithDetail` (or one whose embedded pointer is nil): `AddTrace` dereferences it
  | runtimeErrorNoType -- a non-nil runtime error whose `Type` field is nil (`&util.RuntimeError{Detail: "d"}`)
  deriving DecidableEq, Repr

/-- `executeFunction` after `funcObj.Run` returned — the code runs OUTSIDE `Run`'s recover scope:
    `err.Error()` (twice) for an error that is no runtime error, `AddTrace` for one that is.
    `guarded` (regenerated source fact `Gen.C19.errorValueFact`): `Error()` is only called under a
    recover of its own, and nil runtime-error pointers and runtime errors without a `Type` are treated like any
    other error value (wrapped into a proper runtime error). -/
def executeFunction (guarded : Bool) (kind : Val → ErrKind) : Outcome → Seen
  | .done r none => .value r
  | .done _ (some (.bridge _)) => .runtimeError      -- fmt.Errorf values made by the adapter
  | .done _ (some .recovered) => .runtimeError
  | .done _ (some (.func e)) =>
    match kind e with
    | .plain => .runtimeError
    | .runtimeError => .runtimeError
    | .errorPanics => if guarded then .runtimeError else .crash
    | .nilRuntimeError => if guarded then .runtimeError else .crash
    | .runtimeErrorNoType => if guarded then .runtimeError else .brokenRuntimeError
  | .escaped => .crash

/-- what a `try { … } except e { … }` around the call makes of it (rt_statements.go reads
    `rtError.Type.Error()` to select the except clause) -/
inductive Caught where
  | value (r : Ret)
  | handled               -- the except block ran
  | crash
  deriving DecidableEq, Repr

def tryExcept : Seen → Caught
  | .value r => .value r
  | .runtimeError => .handled
  | .brokenRuntimeError => .crash
  | .crash => .crash

end Ecal.Bridge

namespace Ecal.Bridge
/-- do the arguments get as far as the wrapped function, and as which Go values? -/
def reaches (oob : IntKind → Num → Int) (sig : Sig) (args : List Val) : Option (List Val) :=
  match buildArgs true oob sig.params args with
  | .ok f => if callCheck sig f then some f else none
  | _ => none

/-- what `Run` returns once the function body has been reached with `f` -/
def finish (shape : Shape) (sig : Sig) : BodyOut → Outcome
  | .panic => if shape.recovers then .done (.one .nil) (some .recovered) else .escaped
  | .panicNil =>
    if shape.recovers then
      (if shape.nilPanicReported then .done (.one .nil) (some .recovered) else .done (.one .nil) none)
    else .escaped
  | .ret vals => .done (packRet (convertResults vals sig.results).1) (convertResults vals sig.results).2

/-- property-level notion "an argument of the right kind for this parameter": an ECAL number for
    any numeric parameter, otherwise a value of exactly the parameter's type; a `[]interface{}`
    parameter lets everything through to reflect. (Parameters of an interface type — also plain
    `interface{}` — are compatible with nothing: the code compares dynamic types for identity and
    its `Implements` clause can never be true.) -/
def compatible (p : Ty) (a : Val) : Bool :=
  match a with
  | .f64 _ => p.isNumeric || p == .list
  | a => a.ty == some p || p == .list
/-! ## Plugin functions (`AddStdlibPluginFunc`, stdlib/stdlib.go) -/

/-- the closure a plugin function is wrapped in: `func(a ...interface{}) (interface{}, error)` -/
def pluginSig : Sig := ⟨[.list], true, [.iface, .error]⟩

/-- A call of a registered plugin function whose `Run(args []interface{}) (interface{}, error)` behaves
    as `body`. `viaAdapter` (regenerated from the source, `Gen.C19.pluginViaAdapter`): is the registered
    object an `ECALFunctionAdapter` around that closure? If not, the plugin's `Run` is called with the
    raw arguments and nothing stands between its panic and the interpreter. -/
def runPlugin (viaAdapter : Bool) (shape : Shape) (oob : IntKind → Num → Int)
    (body : List Val → BodyOut) (args : List Val) : Outcome :=
  if viaAdapter then run shape oob (.fn pluginSig body) args
  else
    match body args with
    | .panic => .escaped
    | .panicNil => .escaped
    | .ret vals => .done (.one (vals.headD .nil))
        (match vals.drop 1 with | e :: _ => if e = .nil then none else some (.func e) | [] => none)

/-- property-level notion "the argument fits the parameter": an ECAL number for a numeric
    parameter (in the range of an integer kind), or a (non-NULL) value of exactly the parameter's type -/
def Fits (p : Ty) (a : Val) : Prop :=
  (∃ x, a = .f64 x ∧ p.isNumeric = true ∧ numberFits x p = true) ∨ (a.ty = some p ∧ ∀ x, a ≠ .f64 x)
/-- every argument fits its parameter, and there are exactly as many -/
def AllFit : List Ty → List Val → Prop
  | [], [] => True
  | p :: ps, a :: as => Fits p a ∧ AllFit ps as
  | _, _ => False

/-- the received values have exactly the parameter types -/
def TypesMatch : List Val → List Ty → Prop
  | [], [] => True
  | v :: vs, p :: ps => v.ty = some p ∧ TypesMatch vs ps
  | _, _ => False
end Ecal.Bridge
