import Ecal.Model.Expr
import Ecal.Model.Lexer
/-!
# C03 — from source bytes to the parser's tokens

The model side of the correspondence lexes the source with the lexer model `Ecal.Lex` (tied
to `parser/lexer.go` by C18 / C07) and converts its tokens to the token type of
`Ecal.Expr`. `lexTokens` is exactly what the driver hands to `Impl.parseProgram`.
-/
namespace Ecal.Expr

/-- name of the lexer's error token among the `other` tokens -/
def errorName : Str := [69, 82, 82, 79, 82]

def binOpOfText : String → Option BinOp
  | ">=" => some .geq | "<=" => some .leq | "!=" => some .neq | "==" => some .eq
  | ">" => some .gt | "<" => some .lt
  | "+" => some .plus | "-" => some .minus | "*" => some .times | "/" => some .div
  | "//" => some .divint | "%" => some .modint
  | "and" => some .and | "or" => some .or
  | "like" => some .like | "in" => some .isin | "hasprefix" => some .hasprefix
  | "hassuffix" => some .hassuffix | "notin" => some .notin | ":=" => some .assign
  | _ => none

/-- token id → its text in the lexer's symbol / keyword tables -/
def idText (id : Nat) : Option String :=
  ((Ecal.Lex.symbolTable ++ Ecal.Lex.keywordTable).find? (·.2 = id)).map (·.1)

/-- `none` for a NUMBER whose float bits were not shipped -/
def tkOfLex (num : List (Str × Nat)) (t : Ecal.Lex.Tok) : Option TK :=
  if t.id = Ecal.Lex.tEOF then some .eof
  else if t.id = Ecal.Lex.tSTRING then some (.atom (.str t.val))
  else if t.id = Ecal.Lex.tIDENTIFIER then some (.atom (.ident t.val))
  else if t.id = Ecal.Lex.tNUMBER then (num.find? (·.1 = t.val)).map fun (_, b) => .atom (.num t.val b)
  else if t.id = Ecal.Lex.tERROR then some (.other errorName)
  else match idText t.id with
    | some "(" => some .lp | some ")" => some .rp | some "[" => some .lb | some "]" => some .rb
    | some "," => some .comma
    | some "not" => some (.not t.val)
    | some "true" => some (.atom (.tru t.val))
    | some "false" => some (.atom (.fls t.val))
    | some "null" => some (.atom (.null t.val))
    | some s => some (match binOpOfText s with
                      | some o => .op o t.val
                      | none => .other (Ecal.Lex.str s))
    | none => some (.other (Ecal.Lex.str "?"))


/-- one lexer token as a parser token (with its line) -/
def convTok (num : List (Str × Nat)) (t : Ecal.Lex.Tok) : Option LTok :=
  (tkOfLex num t).map fun k => LTok.mk k t.line

def convAll (num : List (Str × Nat)) : List Ecal.Lex.Tok → Option (List LTok)
  | [] => some []
  | t :: ts =>
    match convTok num t, convAll num ts with
    | some a, some as => some (a :: as)
    | _, _ => none

/-- `parser.next` skips comment tokens (they only become meta data of a node) -/
def dropComments (l : List Ecal.Lex.Tok) : List Ecal.Lex.Tok :=
  l.filter fun t => !(t.id == Ecal.Lex.tPRECOMMENT || t.id == Ecal.Lex.tPOSTCOMMENT)

/-! ### the documented reading of number literals (known finding `number-exponent-split`)

ecal.md: "Numbers can be expressed in all common notations … 1.234560e+02 Scientific notation".
The lexer takes an exponent into a number only when it is written `e+digit` (lower case, plus
sign); `1e5`, `1E+5`, `2e-1` are SPLIT into a number, an identifier (`e5`, `E`, `e`), a sign and a
number. `mergeExponents` puts such directly adjacent tokens back together: the reference reading. -/

def allDigits (s : List Nat) : Bool := !s.isEmpty && s.all fun c => 48 ≤ c && c ≤ 57

def isE (c : Nat) : Bool := c = 101 || c = 69

def adjacent (a b : Ecal.Lex.Tok) : Bool := b.pos = a.pos + a.val.length

/-- `has v` : the float bits of the number text `v` are known (ParseFloat accepts it) -/
def mergeExponents (has : List Nat → Bool) : List Ecal.Lex.Tok → List Ecal.Lex.Tok
  | n :: x :: s :: m :: rest =>
    if n.id = Ecal.Lex.tNUMBER && x.id = Ecal.Lex.tIDENTIFIER && adjacent n x then
      match x.val with
      | [c] =>
        let sign := if idText s.id = some "+" then some 43 else if idText s.id = some "-" then some 45 else none
        match sign with
        | some sg =>
          let v := n.val ++ [101, sg] ++ m.val
          if isE c && adjacent x s && adjacent s m && m.id = Ecal.Lex.tNUMBER && allDigits m.val && has v then
            { n with val := v } :: mergeExponents has rest
          else n :: mergeExponents has (x :: s :: m :: rest)
        | none => n :: mergeExponents has (x :: s :: m :: rest)
      | c :: ds =>
        let v := n.val ++ (101 :: ds)
        if isE c && allDigits ds && has v then { n with val := v } :: mergeExponents has (s :: m :: rest)
        else n :: mergeExponents has (x :: s :: m :: rest)
      | [] => n :: mergeExponents has (x :: s :: m :: rest)
    else n :: mergeExponents has (x :: s :: m :: rest)
  | n :: x :: rest =>
    if n.id = Ecal.Lex.tNUMBER && x.id = Ecal.Lex.tIDENTIFIER && adjacent n x then
      match x.val with
      | c :: ds =>
        let v := n.val ++ (101 :: ds)
        if isE c && allDigits ds && has v then { n with val := v } :: mergeExponents has rest
        else n :: mergeExponents has (x :: rest)
      | [] => n :: mergeExponents has (x :: rest)
    else n :: mergeExponents has (x :: rest)
  | l => l
termination_by l => l.length

/-- the token list under the documented reading of number literals -/
def lexTokensDocumented (num : List (Str × Nat)) (src : List Nat) : Option (List LTok) :=
  convAll num (mergeExponents (fun v => (num.find? (·.1 = v)).isSome) (dropComments (Ecal.Lex.lex src).toList))

/-- the token list of a source text (`none`: the float bits of a NUMBER text were not supplied) -/
def lexTokens (num : List (Str × Nat)) (src : List Nat) : Option (List LTok) :=
  convAll num (dropComments (Ecal.Lex.lex src).toList)

end Ecal.Expr
