import Ecal.Model.Expr
import Ecal.Model.Lexer
/-!
# C03 — from source bytes to the parser's tokens

The model side of the correspondence lexes the source with the lexer model `Ecal.Lex` (tied
to `parser/lexer.go` by C18 / C07) and converts its tokens to the token type of
`Ecal.Expr`. `lexTokens` is exactly what the driver hands to `Impl.parseProgram`.
-/
namespace Ecal.Expr

/-- name of the lexer's error token among the `other` tokens -/
def errorName : Str := [69, 82, 82, 79, 82]

def binOpOfText : String → Option BinOp
  | ">=" => some .geq | "<=" => some .leq | "!=" => some .neq | "==" => some .eq
  | ">" => some .gt | "<" => some .lt
  | "+" => some .plus | "-" => some .minus | "*" => some .times | "/" => some .div
  | "//" => some .divint | "%" => some .modint
  | "and" => some .and | "or" => some .or
  | "like" => some .like | "in" => some .isin | "hasprefix" => some .hasprefix
  | "hassuffix" => some .hassuffix | "notin" => some .notin | ":=" => some .assign
  | _ => none

/-- token id → its text in the lexer's symbol / keyword tables -/
def idText (id : Nat) : Option String :=
  ((Ecal.Lex.symbolTable ++ Ecal.Lex.keywordTable).find? (·.2 = id)).map (·.1)

/-- `none` for a NUMBER whose float bits were not shipped -/
def tkOfLex (num : List (Str × Nat)) (t : Ecal.Lex.Tok) : Option TK :=
  if t.id = Ecal.Lex.tEOF then some .eof
  else if t.id = Ecal.Lex.tSTRING then some (.atom (.str t.val))
  else if t.id = Ecal.Lex.tIDENTIFIER then some (.atom (.ident t.val))
  else if t.id = Ecal.Lex.tNUMBER then (num.find? (·.1 = t.val)).map fun (_, b) => .atom (.num t.val b)
  else if t.id = Ecal.Lex.tERROR then some (.other errorName)
  else match idText t.id with
    | some "(" => some .lp | some ")" => some .rp | some "[" => some .lb | some "]" => some .rb
    | some "," => some .comma
    | some "not" => some (.not t.val)
    | some "true" => some (.atom (.tru t.val))
    | some "false" => some (.atom (.fls t.val))
    | some "null" => some (.atom (.null t.val))
    | some s => some (match binOpOfText s with
                      | some o => .op o t.val
                      | none => .other (Ecal.Lex.str s))
    | none => some (.other (Ecal.Lex.str "?"))


/-- one lexer token as a parser token (with its line) -/
def convTok (num : List (Str × Nat)) (t : Ecal.Lex.Tok) : Option LTok :=
  (tkOfLex num t).map fun k => LTok.mk k t.line

def convAll (num : List (Str × Nat)) : List Ecal.Lex.Tok → Option (List LTok)
  | [] => some []
  | t :: ts =>
    match convTok num t, convAll num ts with
    | some a, some as => some (a :: as)
    | _, _ => none

/-- `parser.next` skips comment tokens (they only become meta data of a node) -/
def dropComments (l : List Ecal.Lex.Tok) : List Ecal.Lex.Tok :=
  l.filter fun t => !(t.id == Ecal.Lex.tPRECOMMENT || t.id == Ecal.Lex.tPOSTCOMMENT)

/-- the token list of a source text (`none`: the float bits of a NUMBER text were not supplied) -/
def lexTokens (num : List (Str × Nat)) (src : List Nat) : Option (List LTok) :=
  convAll num (dropComments (Ecal.Lex.lex src).toList)

end Ecal.Expr
