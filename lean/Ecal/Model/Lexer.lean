/-!
Model of parser/lexer.go as it is in /repo now (after `fix:` 02ff58e: the closing quote of a
string is found with an `escaped` flag, not by looking at the previous rune).  Input and token
values are byte lists (`Nat` < 256); runes are code points.  Follows the Go code function by
function.

Position bookkeeping (property C18) is confined to three small functions which every lexing
function below calls and which `Ecal.Props.C18` is about:
`L.track` (the `if r == '\n' { line++; lastnl = l.pos }` of skipWhiteSpace / lexValue / the block
comment), `L.hashEnd` (the bare `l.line++` after a `#` comment) and `L.stamp` (the line / column
written into a token by emitToken / emitTokenAndValue / emitError).
-/
namespace Ecal.Lex

abbrev Bytes := Array Nat

def runeError : Nat := 0xFFFD

/-- utf8.DecodeRuneInString on the next (up to four) bytes `c0 c1 c2 c3` of which `n ≥ 1` exist:
    (rune, width); invalid ⇒ (U+FFFD, 1) -/
def decodeBytes (n c0 c1 c2 c3 : Nat) : Nat × Nat :=
  let cont (c : Nat) : Bool := 0x80 ≤ c && c ≤ 0xBF
  if c0 < 0x80 then (c0, 1)
  else if c0 < 0xC2 then (runeError, 1)
  else if c0 < 0xE0 then
    if n ≥ 2 && cont c1 then ((c0 % 32) * 64 + (c1 % 64), 2) else (runeError, 1)
  else if c0 < 0xF0 then
    let lo := if c0 = 0xE0 then 0xA0 else 0x80
    let hi := if c0 = 0xED then 0x9F else 0xBF
    if n ≥ 3 && lo ≤ c1 && c1 ≤ hi && cont c2 then ((c0 % 16) * 4096 + (c1 % 64) * 64 + (c2 % 64), 3)
    else (runeError, 1)
  else if c0 < 0xF5 then
    let lo := if c0 = 0xF0 then 0x90 else 0x80
    let hi := if c0 = 0xF4 then 0x8F else 0xBF
    if n ≥ 4 && lo ≤ c1 && c1 ≤ hi && cont c2 && cont c3 then
      ((c0 % 8) * 262144 + (c1 % 64) * 4096 + (c2 % 64) * 64 + (c3 % 64), 4)
    else (runeError, 1)
  else (runeError, 1)

/-- utf8.DecodeRuneInString at byte offset `i` (i < size): (rune, width); invalid ⇒ (U+FFFD, 1) -/
def decodeRune (b : Bytes) (i : Nat) : Nat × Nat :=
  decodeBytes (b.size - i) (b.getD i 0) (b.getD (i+1) 0) (b.getD (i+2) 0) (b.getD (i+3) 0)

/-- unicode.IsSpace (complete) -/
def isSpace (r : Nat) : Bool :=
  r = 9 || r = 10 || r = 11 || r = 12 || r = 13 || r = 32 || r = 0x85 || r = 0xA0 ||
  r = 0x1680 || (0x2000 ≤ r && r ≤ 0x200A) || r = 0x2028 || r = 0x2029 || r = 0x202F || r = 0x205F || r = 0x3000
/-- unicode.IsControl (complete) -/
def isControl (r : Nat) : Bool := r ≤ 0x1F || (0x7F ≤ r && r ≤ 0x9F)
/-- Go's `unicode.N` range table (go1.23.5, Unicode 15.0.0): (lo, hi, stride) -/
def numberRanges : List (Nat × Nat × Nat) :=
  [(48, 57, 1), (178, 179, 1), (185, 188, 3), (189, 190, 1), (1632, 1641, 1), (1776, 1785, 1), (1984, 1993, 1),
   (2406, 2415, 1), (2534, 2543, 1), (2548, 2553, 1), (2662, 2671, 1), (2790, 2799, 1), (2918, 2927, 1), (2930,
   2935, 1), (3046, 3058, 1), (3174, 3183, 1), (3192, 3198, 1), (3302, 3311, 1), (3416, 3422, 1), (3430, 3448,
   1), (3558, 3567, 1), (3664, 3673, 1), (3792, 3801, 1), (3872, 3891, 1), (4160, 4169, 1), (4240, 4249, 1),
   (4969, 4988, 1), (5870, 5872, 1), (6112, 6121, 1), (6128, 6137, 1), (6160, 6169, 1), (6470, 6479, 1), (6608,
   6618, 1), (6784, 6793, 1), (6800, 6809, 1), (6992, 7001, 1), (7088, 7097, 1), (7232, 7241, 1), (7248, 7257,
   1), (8304, 8308, 4), (8309, 8313, 1), (8320, 8329, 1), (8528, 8578, 1), (8581, 8585, 1), (9312, 9371, 1),
   (9450, 9471, 1), (10102, 10131, 1), (11517, 12295, 778), (12321, 12329, 1), (12344, 12346, 1), (12690, 12693,
   1), (12832, 12841, 1), (12872, 12879, 1), (12881, 12895, 1), (12928, 12937, 1), (12977, 12991, 1), (42528,
   42537, 1), (42726, 42735, 1), (43056, 43061, 1), (43216, 43225, 1), (43264, 43273, 1), (43472, 43481, 1),
   (43504, 43513, 1), (43600, 43609, 1), (44016, 44025, 1), (65296, 65305, 1), (65799, 65843, 1), (65856, 65912,
   1), (65930, 65931, 1), (66273, 66299, 1), (66336, 66339, 1), (66369, 66378, 9), (66513, 66517, 1), (66720,
   66729, 1), (67672, 67679, 1), (67705, 67711, 1), (67751, 67759, 1), (67835, 67839, 1), (67862, 67867, 1),
   (68028, 68029, 1), (68032, 68047, 1), (68050, 68095, 1), (68160, 68168, 1), (68221, 68222, 1), (68253, 68255,
   1), (68331, 68335, 1), (68440, 68447, 1), (68472, 68479, 1), (68521, 68527, 1), (68858, 68863, 1), (68912,
   68921, 1), (69216, 69246, 1), (69405, 69414, 1), (69457, 69460, 1), (69573, 69579, 1), (69714, 69743, 1),
   (69872, 69881, 1), (69942, 69951, 1), (70096, 70105, 1), (70113, 70132, 1), (70384, 70393, 1), (70736, 70745,
   1), (70864, 70873, 1), (71248, 71257, 1), (71360, 71369, 1), (71472, 71483, 1), (71904, 71922, 1), (72016,
   72025, 1), (72784, 72812, 1), (73040, 73049, 1), (73120, 73129, 1), (73552, 73561, 1), (73664, 73684, 1),
   (74752, 74862, 1), (92768, 92777, 1), (92864, 92873, 1), (93008, 93017, 1), (93019, 93025, 1), (93824, 93846,
   1), (119488, 119507, 1), (119520, 119539, 1), (119648, 119672, 1), (120782, 120831, 1), (123200, 123209, 1),
   (123632, 123641, 1), (124144, 124153, 1), (125127, 125135, 1), (125264, 125273, 1), (126065, 126123, 1),
   (126125, 126127, 1), (126129, 126132, 1), (126209, 126253, 1), (126255, 126269, 1), (127232, 127244, 1),
   (130032, 130041, 1)]
/-- unicode.IsNumber: membership in `unicode.N` -/
def isNumber (r : Nat) : Bool :=
  if r < 0x80 then 0x30 ≤ r && r ≤ 0x39
  else numberRanges.any fun (lo, hi, st) => lo ≤ r && r ≤ hi && (r - lo) % st = 0

structure Tok where
  id : Nat
  pos : Nat
  val : List Nat
  identifier : Bool
  allowEscapes : Bool
  prefixNl : Nat
  line : Nat
  col : Int
  deriving Repr, DecidableEq, Inhabited

-- token ids (iota order of parser/const.go)
def tERROR := 0
def tEOF := 1
def tPRECOMMENT := 3
def tPOSTCOMMENT := 4
def tSTRING := 5
def tNUMBER := 6
def tIDENTIFIER := 7

def str (s : String) : List Nat := s.toUTF8.toList.map (·.toNat)

def symbolTable : List (String × Nat) :=
  [(">=",16),("<=",17),("!=",18),("==",19),(">",20),("<",21),("(",22),(")",23),("[",24),("]",25),
   ("{",26),("}",27),(".",28),(",",29),(";",30),(":",31),("=",32),("+",33),("-",34),("*",35),("/",36),
   ("//",37),("%",38),(":=",39)]
def keywordTable : List (String × Nat) :=
  [("let",40),("import",42),("as",43),("sink",44),("kindmatch",45),("scopematch",46),("statematch",47),
   ("priority",48),("suppresses",49),("func",50),("return",51),("and",52),("or",53),("not",54),("like",55),
   ("in",56),("hasprefix",57),("hassuffix",58),("notin",59),("false",60),("true",61),("null",62),("if",63),
   ("elif",64),("else",65),("for",66),("break",67),("continue",68),("try",69),("except",70),
   ("otherwise",71),("finally",72),("mutex",73)]

/-- the same tables keyed by the UTF-8 bytes of the text (so that look-ups reduce inside the
    kernel: `String.toUTF8` does not); checked against the readable tables at build time -/
def symbolBytes : List (List Nat × Nat) :=
  [([62, 61], 16), ([60, 61], 17), ([33, 61], 18), ([61, 61], 19), ([62], 20), ([60], 21), ([40], 22), ([41], 23), ([91], 24), ([93], 25), ([123], 26), ([125], 27), ([46], 28), ([44], 29), ([59], 30), ([58], 31), ([61], 32), ([43], 33), ([45], 34), ([42], 35), ([47], 36), ([47, 47], 37), ([37], 38), ([58, 61], 39)]
def keywordBytes : List (List Nat × Nat) :=
  [([108, 101, 116], 40), ([105, 109, 112, 111, 114, 116], 42), ([97, 115], 43), ([115, 105, 110, 107], 44), ([107, 105, 110, 100, 109, 97, 116, 99, 104], 45), ([115, 99, 111, 112, 101, 109, 97, 116, 99, 104], 46), ([115, 116, 97, 116, 101, 109, 97, 116, 99, 104], 47), ([112, 114, 105, 111, 114, 105, 116, 121], 48), ([115, 117, 112, 112, 114, 101, 115, 115, 101, 115], 49), ([102, 117, 110, 99], 50), ([114, 101, 116, 117, 114, 110], 51), ([97, 110, 100], 52), ([111, 114], 53), ([110, 111, 116], 54), ([108, 105, 107, 101], 55), ([105, 110], 56), ([104, 97, 115, 112, 114, 101, 102, 105, 120], 57), ([104, 97, 115, 115, 117, 102, 102, 105, 120], 58), ([110, 111, 116, 105, 110], 59), ([102, 97, 108, 115, 101], 60), ([116, 114, 117, 101], 61), ([110, 117, 108, 108], 62), ([105, 102], 63), ([101, 108, 105, 102], 64), ([101, 108, 115, 101], 65), ([102, 111, 114], 66), ([98, 114, 101, 97, 107], 67), ([99, 111, 110, 116, 105, 110, 117, 101], 68), ([116, 114, 121], 69), ([101, 120, 99, 101, 112, 116], 70), ([111, 116, 104, 101, 114, 119, 105, 115, 101], 71), ([102, 105, 110, 97, 108, 108, 121], 72), ([109, 117, 116, 101, 120], 73)]
#guard symbolTable.map (fun p => (str p.1, p.2)) == symbolBytes
#guard keywordTable.map (fun p => (str p.1, p.2)) == keywordBytes

def lookupTab (tab : List (List Nat × Nat)) (k : List Nat) : Option Nat :=
  (tab.find? fun p => p.1 == k).map (·.2)

def lowerByte (c : Nat) : Nat := if 65 ≤ c && c ≤ 90 then c + 32 else c
def lowerAscii (l : List Nat) : List Nat := l.map lowerByte

/-- strings.ToLower as far as the lexer can observe it: ASCII letters, and the two non-ASCII code
    points whose lower case is ASCII — U+0130 `İ` (C4 B0) ↦ `i`, U+212A `K` (E2 84 AA) ↦ `k` — so
    `İf` is the keyword `if` and `İ` a valid identifier. Every other non-ASCII rune stays
    non-ASCII (never part of a keyword, symbol or name; its exact bytes only show in error texts). -/
def lowerGo : List Nat → List Nat
  | 0xC4 :: 0xB0 :: r => 105 :: lowerGo r
  | 0xE2 :: 0x84 :: 0xAA :: r => 107 :: lowerGo r
  | c :: r => lowerByte c :: lowerGo r
  | [] => []

/-- string(rune) for a rune or EOF, restricted to what the symbol lookup can see -/
def runeKey : Option Nat → List Nat
  | some r => if r < 128 then [lowerByte r] else [0xEF, 0xBF, 0xBD]    -- non-ASCII never matches a symbol
  | none => [0xEF, 0xBF, 0xBD]

structure L where
  inp : Bytes
  pos : Nat := 0
  line : Nat := 0
  lastnl : Nat := 0
  skippedNl : Nat := 0
  width : Nat := 0
  start : Nat := 0
  toks : Array Tok := #[]

def L.slice (l : L) (a b : Nat) : List Nat := (l.inp.extract a b).toList

/-- next(0): none = EOF -/
def L.next (l : L) : L × Option Nat :=
  if l.pos ≥ l.inp.size then (l, none)
  else ({ l with width := (decodeRune l.inp l.pos).2, pos := l.pos + (decodeRune l.inp l.pos).2 },
        some (decodeRune l.inp l.pos).1)

/-- next(n) for n = 1, 2 (peek) -/
def L.peek (l : L) (n : Nat) : Option Nat :=
  if l.pos ≥ l.inp.size then none
  else if l.pos + (n - 1) ≥ l.inp.size then some runeError
  else some (decodeRune l.inp (l.pos + (n - 1))).1

def L.backup (l : L) (w : Nat) : L := { l with pos := l.pos - (if w = 0 then l.width else w) }

/-- the bookkeeping step after rune `r` has been read (so `l.pos` is the offset after it):
    `if r == '\n' { line++; lastnl = l.pos }` — skipWhiteSpace, lexValue, block comment.
    (lexValue and the block comment keep the pair in locals `lLine/lLastnl` until the token is
    emitted; `trackPair` is the same step on such a pair.) -/
def trackPair (r : Option Nat) (posAfter : Nat) (p : Nat × Nat) : Nat × Nat :=
  if r = some 10 then (p.1 + 1, posAfter) else p

def L.track (l : L) (r : Option Nat) : L :=
  let p := trackPair r l.pos (l.line, l.lastnl)
  { l with line := p.1, lastnl := p.2 }

/-- what the `#` branch of lexComment does after the terminating newline: `l.line++` only -/
def L.hashEnd (l : L) : L := { l with line := l.line + 1 }

/-- line and column written into a token that starts at `l.start`:
    `l.line + 1, l.start - l.lastnl + 1` -/
def L.stamp (l : L) : Nat × Int := (l.line + 1, (l.start : Int) - (l.lastnl : Int) + 1)

def L.emit (l : L) (id : Nat) (val : List Nat) (ident ae : Bool) : L :=
  let t : Tok := Tok.mk id l.start val ident ae l.skippedNl l.stamp.1 l.stamp.2
  { l with toks := l.toks.push t }

def L.emitToken (l : L) (id : Nat) : L :=
  if id = tEOF then l.emit tEOF [] false false else l.emit id (l.slice l.start l.pos) false false

def L.emitError (l : L) (msg : String) : L := l.emit tERROR (str msg) false false

def blank (r : Option Nat) : Bool :=
  match r with | none => true | some r => isSpace r || isControl r

/-- skipWhiteSpace; the Bool is the Go return value -/
def skipWhiteSpace (l : L) : L × Bool :=
  let (l, r) := l.next
  let l := { l with skippedNl := 0 }
  let rec loop (fuel : Nat) (l : L) (r : Option Nat) : L × Bool :=
    match fuel with
    | 0 => (l, false)
    | fuel+1 =>
      if blank r then
        let l := if r = some 10 then { l.track r with skippedNl := l.skippedNl + 1 } else l
        let (l, r) := l.next
        if r = none then (l.emitToken tEOF, false) else loop fuel l r
      else (l.backup 0, true)
  loop (l.inp.size + 2) l r

def lexNumberBlock (l : L) : L :=
  let (l, r) := l.next
  let rec loop (fuel : Nat) (l : L) (r : Option Nat) : L × Option Nat :=
    match fuel with
    | 0 => (l, r)
    | fuel+1 =>
      match r with
      | none => (l, r)
      | some c =>
        if isSpace c || isControl c then (l, r)
        else if !isNumber c && c != 46 then
          if c = 101 then
            let l1 := l.peek 1
            let l2 := l.peek 2
            if l1 != some 43 || !(match l2 with | some d => isNumber d | none => false) then (l, r)
            else
              let (l, _) := l.next
              let (l, _) := l.next
              let (l, r) := l.next
              loop fuel l r
          else (l, r)
        else
          let (l, r) := l.next
          loop fuel l r
  let (l, r) := loop (l.inp.size + 2) l r
  if r != none then l.backup 0 else l

def isSym (k : List Nat) : Bool := (lookupTab symbolBytes k).isSome

def lexTextBlock (l : L) : L :=
  let (l, r) := l.next
  let nr := l.peek 1
  if isSym (runeKey r ++ runeKey nr) then (l.next).1
  else if isSym (runeKey r) then l
  else
    let rec loop (fuel : Nat) (l : L) (r : Option Nat) : L × Option Nat × Bool :=   -- Bool: returned early (after backup)
      match fuel with
      | 0 => (l, r, false)
      | fuel+1 =>
        if blank r then (l, r, false)
        else if isSym (runeKey r) then (l.backup 0, r, true)
        else
          let nr := l.peek 1
          if isSym (runeKey r ++ runeKey nr) then (l.backup 0, r, true)
          else let (l, r) := l.next; loop fuel l r
    let (l, r, early) := loop (l.inp.size + 2) l r
    if early then l else if r != none then l.backup 0 else l

def digitsVal (ds : List Nat) : Nat := ds.foldl (fun acc d => acc * 10 + (d - 48)) 0

/-- smallest value that strconv.ParseFloat(…, 64) rounds to +Inf (ErrRange): 2^1024 − 2^970 -/
def floatOverflow : Nat := 2 ^ 1024 - 2 ^ 970

/-- `m · 10^e / 10^f` overflows float64 (exact comparison; a huge exponent is cut off first) -/
def overflows (m e f : Nat) : Bool :=
  if m = 0 then false
  else if e > f + 400 then true
  else if e ≥ f then m * 10 ^ (e - f) ≥ floatOverflow
  else m ≥ floatOverflow * 10 ^ (f - e)

/-- candidate accepted by strconv.ParseFloat among strings over [0-9 . e +] starting with a digit:
    digits [ '.' digits* ] [ 'e' '+' digits+ ], and the value does not overflow float64 -/
def validFloat (s : List Nat) : Bool :=
  let isD (c : Nat) : Bool := 48 ≤ c && c ≤ 57
  let intPart := s.takeWhile isD
  let rest := s.dropWhile isD
  if intPart.isEmpty then false
  else
    let (frac, rest) := match rest with
      | 46 :: r => (r.takeWhile isD, r.dropWhile isD)
      | r => ([], r)
    let m := digitsVal (intPart ++ frac)
    match rest with
    | [] => !overflows m 0 frac.length
    | 101 :: 43 :: e =>
      !e.isEmpty && e.all isD &&
        !(if (e.dropWhile (· = 48)).length > 6 then m != 0 else overflows m (digitsVal e) frac.length)
    | _ => false

def hexv (c : Nat) : Option Nat :=
  if 48 ≤ c && c ≤ 57 then some (c - 48) else if 97 ≤ c && c ≤ 102 then some (c - 87)
  else if 65 ≤ c && c ≤ 70 then some (c - 55) else none

def encodeRune (r : Nat) : List Nat :=
  if r < 0x80 then [r]
  else if r < 0x800 then [0xC0 + r / 64, 0x80 + r % 64]
  else if r < 0x10000 then [0xE0 + r / 4096, 0x80 + r / 64 % 64, 0x80 + r % 64]
  else [0xF0 + r / 262144, 0x80 + r / 4096 % 64, 0x80 + r / 64 % 64, 0x80 + r % 64]

def validRune (v : Nat) : Bool := (v < 0xD800) || (0xDFFF < v && v ≤ 0x10FFFF)

def hexN (n : Nat) (s : List Nat) : Option (Nat × List Nat) :=
  match n with
  | 0 => some (0, s)
  | n+1 => match s with
    | [] => none
    | c :: cs => match hexv c with
      | none => none
      | some d => (hexN n cs).map fun (v, r) => (d * 16 ^ n + v, r)

/-- strconv.Unquote of `"` ++ body ++ `"` (slow path; the fast path gives the same result) -/
def unquoteBody (fuel : Nat) (body : List Nat) : Option (List Nat) :=
  match fuel with
  | 0 => none
  | fuel+1 =>
    match body with
    | [] => some []
    | 10 :: _ => none                                  -- raw newline
    | 34 :: _ => none                                  -- unescaped quote
    | 92 :: rest =>
      match rest with
      | [] => none
      | e :: rest' =>
        let simple (b : Nat) := (unquoteBody fuel rest').map (b :: ·)
        if e = 97 then simple 7 else if e = 98 then simple 8 else if e = 102 then simple 12
        else if e = 110 then simple 10 else if e = 114 then simple 13 else if e = 116 then simple 9
        else if e = 118 then simple 11 else if e = 92 then simple 92 else if e = 34 then simple 34
        else if e = 120 then match hexN 2 rest' with
          | some (v, r) => (unquoteBody fuel r).map (v :: ·)
          | none => none
        else if e = 117 then match hexN 4 rest' with
          | some (v, r) => if validRune v then (unquoteBody fuel r).map (encodeRune v ++ ·) else none
          | none => none
        else if e = 85 then match hexN 8 rest' with
          | some (v, r) => if validRune v then (unquoteBody fuel r).map (encodeRune v ++ ·) else none
          | none => none
        else if 48 ≤ e && e ≤ 55 then
          match rest' with
          | a :: b :: r =>
            if 48 ≤ a && a ≤ 55 && 48 ≤ b && b ≤ 55 then
              let v := (e - 48) * 64 + (a - 48) * 8 + (b - 48)
              if v > 255 then none else (unquoteBody fuel r).map (v :: ·)
            else none
          | _ => none
        else none
    | c :: rest =>
      if c < 0x80 then (unquoteBody fuel rest).map (c :: ·)
      else
        -- multi-byte: decode one rune (invalid byte ⇒ U+FFFD) and re-encode it
        let arr : Bytes := (c :: rest).toArray
        let (r, w) := decodeRune arr 0
        (unquoteBody fuel ((c :: rest).drop w)).map (encodeRune r ++ ·)

def replaceQuotes : List Nat → List Nat
  | [] => []
  | 34 :: r => 92 :: 34 :: replaceQuotes r
  | c :: r => c :: replaceQuotes r

/-- state functions return `none` for Go's nil -/
inductive Next | token | stop deriving DecidableEq

/-- opener of a string literal: `"` / `'` (escapes on) or `r"` / `r'` (raw);
    gives (state after the opener, allowEscapes, endToken) -/
def lexValueOpen (l : L) : L × Bool × Option Nat :=
  let l := { l with start := l.pos }
  let r := (l.next).2
  let l := (l.next).1
  let q := l.peek 1
  if r = some 114 && (q = some 34 || q = some 39) then ((l.next).1, false, q) else (l, true, r)

/-- the loop of lexValue: `r` is the rune read last; `none` = ran into the end of the input -/
def lexValueLoop (ae : Bool) (endTok : Option Nat) :
    Nat → L → Option Nat → Bool → Nat → Nat → Option (L × Nat × Nat)
  | 0, _, _, _, _, _ => none
  | fuel+1, l, r, escaped, lLine, lLastnl =>
    if (!ae && r != endTok) || (ae && (r != endTok || escaped)) then
      let p := trackPair r l.pos (lLine, lLastnl)
      -- a backslash escapes the next character unless it is escaped itself
      let escaped := !escaped && r = some 92
      if (l.next).2 = none then none   -- error: unexpected end
      else lexValueLoop ae endTok fuel (l.next).1 (l.next).2 escaped p.1 p.2
    else some (l, lLine, lLastnl)

/-- what lexValue does after the loop; `l0` is the state before the loop (for the error) -/
def lexValueClose (ae : Bool) (endTok : Option Nat) (l0 : L) : Option (L × Nat × Nat) → L × Next
  | none =>
    -- the Go code has consumed up to EOF; only the emitted error matters
    ({ l0 with pos := l0.inp.size }.emitError "Unexpected end while reading string value (unclosed quotes)", Next.stop)
  | some (l, lLine, lLastnl) =>
    if ae then
      let val := l.slice (l.start + 1) (l.pos - 1)
      let val := if endTok = some 39 then replaceQuotes val else val
      match unquoteBody (val.length + 2) val with
      | none => (l.emitError "invalid syntax while parsing string", Next.stop)
      | some s => ({ (l.emit tSTRING s false true) with line := lLine, lastnl := lLastnl }, Next.token)
    else
      ({ (l.emit tSTRING (l.slice (l.start + 2) (l.pos - 1)) false false) with line := lLine, lastnl := lLastnl }, Next.token)

def lexValue (l : L) : L × Next :=
  let o := lexValueOpen l
  let l1 := (o.1.next).1
  lexValueClose o.2.1 o.2.2 l1
    (lexValueLoop o.2.1 o.2.2 (l1.inp.size + 2) l1 (o.1.next).2 false l1.line l1.lastnl)

/-- body of a `#` comment: up to and including the newline, or to the end of the input -/
def hashLoop : Nat → L → Option Nat → L × Option Nat
  | 0, l, _ => (l, none)     -- out of fuel (cannot happen: the fuel exceeds the input length): as at the end of input
  | fuel+1, l, r => if r != some 10 && r != none then hashLoop fuel (l.next).1 (l.next).2 else (l, r)

/-- body of a block comment up to the `*` of the closing `*/`; `none` = unterminated -/
def blockLoop : Nat → L → Option Nat → Nat → Nat → Option (L × Nat × Nat)
  | 0, _, _, _, _ => none
  | fuel+1, l, r, lLine, lLastnl =>
    if r != some 42 || l.peek 1 != some 47 then
      let p := trackPair r l.pos (lLine, lLastnl)
      if (l.next).2 = none then none else blockLoop fuel (l.next).1 (l.next).2 p.1 p.2
    else some (l, lLine, lLastnl)

def lexCommentHash (l : L) : L × Next :=
  let l := { l with start := l.pos }
  let res := hashLoop (l.inp.size + 2) l (some 35)
  let l := res.1.emit tPOSTCOMMENT (res.1.slice res.1.start res.1.pos) false false
  if res.2 = none then (l, Next.stop) else (l.hashEnd, Next.token)

def lexCommentBlock (l : L) : L × Next :=
  let l := (l.next).1                       -- the `*` of the opener
  let l := { l with start := l.pos }
  let l1 := (l.next).1
  match blockLoop (l1.inp.size + 2) l1 (l.next).2 l1.line l1.lastnl with
  | none => ({ l1 with pos := l1.inp.size }.emitError "Unexpected end while reading comment", Next.stop)
  | some (l, lLine, lLastnl) =>
    let l := l.emit tPRECOMMENT (l.slice l.start (l.pos - 1)) false false
    ({ (l.next).1 with line := lLine, lastnl := lLastnl }, Next.token)   -- consume the final `/`

def lexComment (l : L) : L × Next :=
  if (l.next).2 = some 35 then lexCommentHash (l.next).1 else lexCommentBlock (l.next).1

def namePattern (s : List Nat) : Bool :=
  match s with
  | [] => false
  | c :: cs => ((65 ≤ c && c ≤ 90) || (97 ≤ c && c ≤ 122)) &&
      cs.all fun d => (65 ≤ d && d ≤ 90) || (97 ≤ d && d ≤ 122) || (48 ≤ d && d ≤ 57)

/-- the number test of lexToken: starts with a digit (`^[0-9].*$`; `.` does not match a newline)
    and strconv.ParseFloat accepts it -/
def numberCandidate (kc : List Nat) : Bool :=
  (match kc with | c :: _ => 48 ≤ c && c ≤ 57 | [] => false) && !(kc.contains 10) && validFloat kc

/-- keyword / symbol / identifier starting at `l.start = l.pos` (after the number test failed) -/
def lexWordText (l : L) : L × Next :=
  let l := lexTextBlock l
  let ic := l.slice l.start l.pos
  let kc := lowerGo ic
  match (lookupTab keywordBytes kc).orElse (fun _ => lookupTab symbolBytes kc) with
  | some t => (l.emitToken t, Next.token)
  | none =>
    if !namePattern kc then (l.emitError "Cannot parse identifier", Next.stop)
    else (l.emit tIDENTIFIER ic true false, Next.token)

/-- number / keyword / symbol / identifier token starting at `l.start = l.pos` -/
def lexWord (l : L) : L × Next :=
  let l := lexNumberBlock l
  let kc := lowerGo (l.slice l.start l.pos)
  if numberCandidate kc then (l.emit tNUMBER kc false false, Next.token)
  else lexWordText (if kc.length > 0 then l.backup (l.pos - l.start) else l)

def lexToken (l : L) : L × Next :=
  let n1 := l.peek 1
  let n2 := l.peek 2
  -- `return lexComment` / `return lexValue` hand control back to run(), which calls
  -- skipWhiteSpace once more before the state function (this resets skippedNewline)
  -- (if that skipWhiteSpace returned false, run() would leave its loop at once)
  if (n1 = some 47 && n2 = some 42) || n1 = some 35 then
    if (skipWhiteSpace l).2 then lexComment (skipWhiteSpace l).1 else ((skipWhiteSpace l).1, Next.stop)
  else if (n1 = some 34 || n1 = some 39) || (n1 = some 114 && (n2 = some 34 || n2 = some 39)) then
    if (skipWhiteSpace l).2 then lexValue (skipWhiteSpace l).1 else ((skipWhiteSpace l).1, Next.stop)
  else lexWord { l with start := l.pos }

/-- (*lexer).run -/
def lex (input : List Nat) : Array Tok :=
  let l : L := { inp := input.toArray }
  let (l, ok) := skipWhiteSpace l
  if !ok then l.toks
  else
    let rec loop (fuel : Nat) (l : L) : L :=
      match fuel with
      | 0 => l
      | fuel+1 =>
        let (l, nx) := lexToken l
        let (l, ok) := skipWhiteSpace l
        if !ok || nx = Next.stop then l else loop fuel l
    (loop (input.length + 2) l).toks

end Ecal.Lex
