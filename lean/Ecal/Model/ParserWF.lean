import Ecal.Model.Parser
/-!
`WellFormed : Node → Bool` — the structural facts about a parse tree which the consumers
(`/repo/interpreter` Validate/Eval, `parser/prettyprinter.go`) rely on WITHOUT checking them
(census: `grep -n 'Children\[' interpreter/*.go parser/prettyprinter.go`):

* no nil child anywhere (every consumer ranges over / indexes `Children` and dereferences);
* every node has a token, except the nodes the parser constructs itself
  (`statements funccall compaccess params guard` and the `true` of an `else`) —
  `rt.node.Children[k].Token` is used by the error constructors of rt_general.go, by
  rt_func.go:102/166, rt_sink.go:171, rt_statements.go:636-665/711;
* per node kind (the kind is the node NAME, which is what the runtime provider dispatches on):
  - binary operators (comparison, arithmetic, `and or like in notin hasprefix hassuffix := kvp preset`):
    exactly 2 children (rt_general.go:307-433, rt_boolean.go:356-360, rt_assign.go:43-92, rt_value.go:189-195,
    rt_func.go:166-171, rt_statements.go:178/366 for `in`); `plus`/`minus`: 1 or 2; `not let` and the sink
    attributes: exactly 1 (rt_general.go:247/279, rt_assign.go:209, rt_sink.go);
  - `if`: (guard with 1 child, statements) pairs (rt_statements.go:94-100, prettyprinter.go:627);
  - `loop`: [guard with 1 child | `in` with 2 children, statements] (rt_statements.go:176-366);
  - `try`: statements first, then only except/otherwise/finally nodes (rt_statements.go:525-591);
    `except`: last child statements (:628/:645); `as`: 1 child; `otherwise`/`finally`: [statements] (:527/:591);
  - `function`: [identifier?, params, statements] (rt_func.go:101-139); `sink`: identifier … statements
    (rt_sink.go:48/171/175); `mutex`: [identifier, statements] (rt_statements.go:711/766);
    `import`: [string, identifier] (rt_general.go:148-159); `return`: at most 1 (rt_func.go:55);
    `identifier`: children are identifier/funccall/compaccess, `compaccess` and `guard` have 1 child
    (rt_identifier.go:324-338, prettyprinter.go:586-593).
* every node name is one of the known node kinds (`kindOf name ≠ .unknown`): the runtime provider has no
  entry for any other name, and the pretty printer no template — in particular the nameless node a
  block-start brace used to become inside a guard expression (`if [ { { a } ] { }`) is rejected;
* deliberately NOT a clause: entries of a `map` are `kvp` (rt_value.go guards it now), children of
  `params` are identifier/preset (rt_func.go checks the name before indexing), `list`/`funccall`/
  `statements` children (ranged over).
-/
namespace Ecal.Parse
open Ecal.Lex

inductive Kind where
  | terminal | binary | plusminus | prefix1 | import_ | identifier | one | return_ | if_ | loop | try_
  | except | blockOnly | function | sink | mutex | container | unknown
  deriving DecidableEq, Repr

def kindOf (name : String) : Kind :=
  if name = "string" ∨ name = "number" ∨ name = "true" ∨ name = "false" ∨ name = "null" ∨ name = "break"
     ∨ name = "continue" ∨ name = "EOF" then .terminal
  else if name = ">=" ∨ name = "<=" ∨ name = "!=" ∨ name = "==" ∨ name = ">" ∨ name = "<" ∨ name = "kvp"
     ∨ name = "preset" ∨ name = "times" ∨ name = "div" ∨ name = "divint" ∨ name = "modint" ∨ name = ":="
     ∨ name = "and" ∨ name = "or" ∨ name = "like" ∨ name = "in" ∨ name = "hasprefix" ∨ name = "hassuffix"
     ∨ name = "notin" then .binary
  else if name = "plus" ∨ name = "minus" then .plusminus
  else if name = "let" ∨ name = "not" ∨ name = "kindmatch" ∨ name = "scopematch" ∨ name = "statematch"
     ∨ name = "priority" ∨ name = "suppresses" then .prefix1
  else if name = "import" then .import_
  else if name = "identifier" then .identifier
  else if name = "compaccess" ∨ name = "guard" ∨ name = "as" then .one
  else if name = "return" then .return_
  else if name = "if" then .if_
  else if name = "loop" then .loop
  else if name = "try" then .try_
  else if name = "except" then .except
  else if name = "otherwise" ∨ name = "finally" then .blockOnly
  else if name = "function" then .function
  else if name = "sink" then .sink
  else if name = "mutex" then .mutex
  else if name = "list" ∨ name = "map" ∨ name = "funccall" ∨ name = "params" ∨ name = "statements" then .container
  else .unknown

/-- what a parent looks at in a child: its name and its number of children -/
abbrev Sig := String × Nat

def sigOf : Option Node → Sig
  | some n => (n.name, n.children.length)
  | none => ("<nil>", 0)

def ifShape : List Sig → Bool
  | [] => true
  | (g, k) :: (s, _) :: r => g = "guard" && k = 1 && s = "statements" && ifShape r
  | [_] => false

def shapeOk (name : String) (cs : List Sig) : Bool :=
  match kindOf name with
  | .terminal => cs.isEmpty
  | .binary => cs.length = 2
  | .plusminus => cs.length = 1 || cs.length = 2
  | .prefix1 => cs.length = 1
  | .one => cs.length = 1
  | .return_ => cs.length ≤ 1
  | .import_ => cs.map (·.1) = ["string", "identifier"]
  | .identifier => cs.all fun s => s.1 = "identifier" || s.1 = "funccall" || (s.1 = "compaccess" && s.2 = 1)
  | .if_ => ifShape cs
  | .loop => match cs with
    | [(g, k), (s, _)] => s = "statements" && ((g = "guard" && k = 1) || (g = "in" && k = 2))
    | _ => false
  | .try_ => match cs with
    | (s, _) :: r => s = "statements" && r.all fun c => c.1 = "except" || c.1 = "otherwise" || c.1 = "finally"
    | [] => false
  | .except => (cs.getLast?.map (·.1)) = some "statements"
  | .blockOnly => cs.map (·.1) = ["statements"]
  | .function => cs.map (·.1) = ["params", "statements"] || cs.map (·.1) = ["identifier", "params", "statements"]
  | .sink => (cs.head?.map (·.1)) = some "identifier" && (cs.getLast?.map (·.1)) = some "statements" && 2 ≤ cs.length
  | .mutex => cs.map (·.1) = ["identifier", "statements"]
  | .container => true
  | .unknown => false   -- every node name is a known node kind (no `""` block-brace node, no `"?"`)

/-- nodes the parser constructs without a token -/
def tokenless (name : String) : Bool :=
  name = "statements" || name = "funccall" || name = "compaccess" || name = "params" || name = "guard" || name = "true"

/-- the local (non-recursive) part of well-formedness -/
def nodeOk (n : Node) : Bool :=
  (n.tok.isSome || tokenless n.name) && shapeOk n.name (n.children.map sigOf)

mutual
def WellFormed : Node → Bool
  | .mk name tok b x l cs ms => nodeOk (.mk name tok b x l cs ms) && kidsWF cs
def kidsWF : List (Option Node) → Bool
  | [] => true
  | none :: _ => false
  | some c :: r => WellFormed c && kidsWF r
end

end Ecal.Parse
