import Ecal.Model.Priority
/-!
# C10 — several workers on one root monitor (interleaving model of the bookkeeping)

Each worker (and each goroutine adding events) runs its own program: a sequence of monitor API
calls (`NewChildMonitor`, `Activate`, `Skip`, `Finish`) and of `HighestPriority()` reads. One step
of the system lets **any** worker that still has something to do perform its next action
**atomically** on the shared `RootMonitor` state — `descendantActivated`, `descendantFinished` and
`HighestPriority` each run inside one `rm.lock` section (regenerated fact
`Gen.C10.bookAccess`, theorem `gen_bookkeeping_under_lock`), and the flags of a monitor are only
written by the goroutine that drives that monitor. A call whose assertion fails has no transition
(the Go code panics there). Not run by any driver; used by the theorems of Props/C10.lean only.
-/
namespace Ecal.Priority.Conc
open Ecal.Priority.Book

/-- an action of a worker -/
inductive Act where
  | call (op : Op)      -- one monitor API call
  | read                -- `rm.HighestPriority()`
  deriving Repr, DecidableEq, Inhabited

/-- the system: the shared root-monitor state, what each worker still has to do, and two ghost
    logs — the calls performed so far `(worker, call)` and the values read `(worker, value)`,
    both newest first -/
structure Sys where
  shared : RM := {}
  progs  : List (List Act)
  hist   : List (Nat × Op) := []
  reads  : List (Nat × Int) := []

/-- worker `w` performs its next action atomically -/
inductive Step : Sys → Sys → Prop where
  | call {c : Sys} {w : Nat} {op : Op} {rest : List Act} {s' : RM} :
      c.progs[w]? = some (.call op :: rest) → step current c.shared op = some s' →
      Step c { c with shared := s', progs := c.progs.set w rest, hist := (w, op) :: c.hist }
  | read {c : Sys} {w : Nat} {rest : List Act} :
      c.progs[w]? = some (.read :: rest) →
      Step c { c with progs := c.progs.set w rest, reads := (w, highestPriority c.shared) :: c.reads }

/-- the states reachable from the start with programs `P`, under **any** schedule -/
inductive Reach (P : List (List Act)) : Sys → Prop where
  | init : Reach P { progs := P }
  | step {c c' : Sys} : Reach P c → Step c c' → Reach P c'

/-- the calls among a worker's actions -/
def callsOf : List Act → List Op
  | [] => []
  | .call op :: rest => op :: callsOf rest
  | .read :: rest => callsOf rest

/-- the calls worker `w` has performed, oldest first -/
def doneBy (c : Sys) (w : Nat) : List Op :=
  (c.hist.reverse.filter (·.1 == w)).map (·.2)

end Ecal.Priority.Conc
