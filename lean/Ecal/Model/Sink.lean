import Ecal.Model.Engine
/-!
# From a sink declaration to an engine rule, from `addEvent`'s arguments to an engine event and scope

Model of `interpreter/rt_sink.go createRule` (with `makeStringList`) and of the argument handling of
`interpreter/func_provider.go addevent.addEvent`. What `fmt.Sprint`, `strings.Split` and the value
representation do is a parameter (`Ctx`); only the shape of the translation is modelled:

* `kindmatch` / `scopematch` / `suppresses`: every list item becomes its text (`fmt.Sprint`); kinds and
  scope paths are split at "." by the engine; an absent `scopematch` is the empty scope match, the literal
  `scopematch []` reaches `AddRule` as a nil slice (refused).
* `statematch`: `stateMatch[fmt.Sprint(k)] = v` — the key becomes its text, the value is stored as it is.
* `priority`: floor of the number, 0 if absent.
* `addEvent(name, kind, state, scope?)`: name and kind by their text, the kind split at "."; the state map
  keeps its raw keys, so the engine's lookup by a Go string finds string keys only; the scope map becomes
  `scopeData[fmt.Sprint(k)] = b` with `b, _ := strconv.ParseBool(fmt.Sprint(v))`; without a scope argument
  the cascade has the global scope `{"": true}`.

NOT run by the driver: at the ECAL level the harness performs this translation in Go when it encodes a
case; this file states the translation the harness implements, and `Props/C01Sink.lean` proves what it
preserves.
-/
namespace Ecal.Sink
open Ecal.Engine

/-- a key of an ECAL map literal: a string, or any other value given by its `fmt.Sprint` text -/
inductive Key where
  | str (s : String)
  | other (text : String)
  deriving DecidableEq, Repr

def Key.text : Key → String
  | .str s => s
  | .other t => t

def Key.isStr : Key → Bool
  | .str _ => true
  | .other _ => false

/-- what is outside the model: `Item` = an ECAL value used as list item / name / kind / scope flag,
    `PV` = an ECAL value used as a state value or state pattern -/
structure Ctx (Item PV : Type) where
  sprint : Item → String          -- fmt.Sprint
  split : String → List Seg       -- strings.Split(·, ".")
  floorOf : Item → Int            -- int(math.Floor(v.(float64)))
  patOf : PV → Pat                -- the pattern a statematch value is for the engine (nil ↦ any)
  valOf : PV → Val                -- the value an event state entry is for the engine

/-- a sink declaration with its attributes as written -/
structure Decl (Item PV : Type) where
  name : String
  kindmatch : List Item
  scopematch : Option (List Item)           -- none: no scopematch attribute
  statematch : Option (List (Key × PV))     -- none: no statematch attribute
  priority : Option Item
  suppresses : List Item

/-- `createRule` -/
def createRule {Item PV : Type} (c : Ctx Item PV) (d : Decl Item PV) : Rule :=
  { name := d.name
    kinds := d.kindmatch.map fun it => c.split (c.sprint it)
    scope := (d.scopematch.getD []).map fun it => c.split (c.sprint it)
    scopeNil := match d.scopematch with | some [] => true | _ => false
    state := d.statematch.map fun st => st.map fun kp => (kp.1.text, c.patOf kp.2)
    prio := (d.priority.map c.floorOf).getD 0
    suppress := d.suppresses.map c.sprint }

/-- the arguments of `addEvent` / `addEventAndWait` -/
structure EventArg (Item PV : Type) where
  name : Item
  kind : Item
  state : List (Key × PV)
  scope : Option (List (Item × Item))       -- none: no fourth argument

/-- the engine's view of the state map: only string keys can be found by a Go string -/
def stateOf {Item PV : Type} (c : Ctx Item PV) (st : List (Key × PV)) : List (String × Val) :=
  st.filterMap fun kv => match kv.1 with
    | .str s => some (s, c.valOf kv.2)
    | .other _ => none

def eventOf {Item PV : Type} (c : Ctx Item PV) (e : EventArg Item PV) : Event :=
  { name := c.sprint e.name, kind := c.split (c.sprint e.kind), state := stateOf c e.state }

/-- `strconv.ParseBool`, errors read as false -/
def parseBool (s : String) : Bool := s ∈ ["1", "t", "T", "TRUE", "true", "True"]

/-- the definitions handed to `NewRuleScope` -/
def scopeDefs {Item PV : Type} (c : Ctx Item PV) : Option (List (Item × Item)) → List (List Seg × Bool)
  | none => [([], true)]
  | some m => m.map fun kv =>
      (if c.sprint kv.1 = "" then [] else c.split (c.sprint kv.1), parseBool (c.sprint kv.2))

/-! ## what the declaration says (the reading of the property at the level of the attributes) -/

/-- some kindmatch item matches the kind of the event, segment by segment -/
def declKindOK {Item PV : Type} (c : Ctx Item PV) (d : Decl Item PV) (e : EventArg Item PV) : Bool :=
  d.kindmatch.any fun it => Spec.patMatch (c.split (c.sprint it)) (c.split (c.sprint e.kind))

/-- every required key — compared as ECAL keys: `1` is not `"1"` — is in the state of the event with a
    value the pattern admits: null admits anything, else an equal value -/
def declStateOK {Item PV : Type} (isNull : PV → Bool) (same : PV → PV → Bool)
    (d : Decl Item PV) (e : EventArg Item PV) : Bool :=
  (d.statematch.getD []).all fun kp =>
    match alookup kp.1 e.state with
    | some v => isNull kp.2 || same kp.2 v
    | none => false

/-- every scopematch item is allowed by the scope map of the cascade: the flag of the last definition of
    the longest defined prefix decides, default false -/
def declScopeOK {Item PV : Type} (c : Ctx Item PV) (d : Decl Item PV) (e : EventArg Item PV) : Bool :=
  (d.scopematch.getD []).all fun it =>
    (Spec.longest (Spec.lastDef (scopeDefs c e.scope)) (c.split (c.sprint it))).getD false

def declTriggers {Item PV : Type} (c : Ctx Item PV) (isNull : PV → Bool) (same : PV → PV → Bool)
    (d : Decl Item PV) (e : EventArg Item PV) : Bool :=
  declKindOK c d e && declStateOK isNull same d e && declScopeOK c d e

end Ecal.Sink
