import Ecal.Model.Conc
/-!
# SinkClosure — the action closure of a sink, with its variables by name

An invocation of the closure installed as `rule.Action` (interpreter/rt_sink.go) for sink `sink`
and event `event`: it prepares its scope (the `echo` of the event id stands for what the
statements see), evaluates the statements — their result `outcome sink event` is a pair
(error, data) that depends on the sink and the event only — stores the pair in the closure's
variables `err` and `data`, and returns what those variables hold. Every variable whose name is
in `captured` (the list the extractor produces: variables the closure assigns but which are
declared outside it) is ONE cell shared by all invocations; the others are the invocation's own.
So `closureSys captured` really depends on `captured`: it writes exactly the captured cells
(`closure_writes_captured`), and each captured name has an interfering schedule.
-/
namespace Ecal.Closure
open Ecal.Conc

/-- (error, data) produced by the statements; `(none, none)` = success -/
abbrev Outcome := Option Nat × Option Nat

structure CLoc where
  sink  : Nat
  event : Nat
  pc    : Nat := 0
  echo  : Option Nat := none      -- the event id as seen through `event`
  err   : Option Nat := none      -- the closure's own `err` (when not captured)
  data  : Option Nat := none      -- the closure's own `data` (when not captured)
  ret   : Option Outcome := none  -- what the action returned: recorded by the engine for (event, sink)
  deriving DecidableEq, Repr, Inhabited

def upd (g : String → Option Nat) (v : String) (x : Option Nat) : String → Option Nat :=
  fun y => if y = v then x else g y

/-- write variable `v`: the shared cell if captured, nothing shared otherwise -/
def wrShared (captured : List String) (g : String → Option Nat) (v : String) (x : Option Nat) :
    String → Option Nat := if captured.contains v then upd g v x else g

def closureStep (captured : List String) (outcome : Nat → Nat → Outcome)
    (g : String → Option Nat) (l : CLoc) : (String → Option Nat) × CLoc :=
  if l.pc = 0 then
    -- `err := sinkVS.SetValue("event", …)`: nil
    (wrShared captured g "err" none,
     { l with pc := 1, echo := some l.event, err := (if captured.contains "err" then l.err else none) })
  else if l.pc = 1 then
    -- `_, err = statements.Runtime.Eval(…)`; error post-processing fills `data`
    let o := outcome l.sink l.event
    (wrShared captured (wrShared captured g "err" o.1) "data" o.2,
     { l with pc := 2, err := (if captured.contains "err" then l.err else o.1),
              data := (if captured.contains "data" then l.data else o.2) })
  else if l.pc = 2 then
    -- `return err` (with its data)
    let r : Outcome := ((if captured.contains "err" then g "err" else l.err),
                        (if captured.contains "data" then g "data" else l.data))
    (g, { l with pc := 3, ret := some r })
  else (g, l)

def closureSys (captured : List String) (outcome : Nat → Nat → Outcome) : Sys String (Option Nat) CLoc :=
  ⟨fun _ => closureStep captured outcome⟩

/-- **The closure writes exactly the captured cells**: hypothesis `hW` of `isolation` for this
    model is the extracted list itself. -/
theorem closure_writes_captured (captured : List String) (outcome : Nat → Nat → Outcome) :
    WritesWithin (closureSys captured outcome) (· ∈ captured) := by
  intro t g l x hx
  have hne : ∀ v, captured.contains v = true → x ≠ v := by
    intro v hv hxv
    subst hxv
    exact hx (by simpa using hv)
  simp only [closureSys, closureStep]
  split
  · simp only [wrShared]; split
    · rename_i h; simp [upd, hne _ h]
    · rfl
  · split
    · simp only [wrShared]
      split <;> split <;> rename_i h1 h2 <;> simp [upd, *] <;> try (first | exact (fun h => absurd h (hne _ h1)) | skip)
      all_goals (try simp [hne _ h1]) <;> (try simp [hne _ h2])
    · split <;> rfl

def fresh (sink ev : Nat) : CLoc := { sink := sink, event := ev }

theorem alone_done (captured : List String) (outcome : Nat → Nat → Outcome) (t n : Nat)
    (g : String → Option Nat) (l : CLoc) (h : l.pc ≥ 3) :
    alone (closureSys captured outcome) t n g l = (g, l) := by
  induction n with
  | zero => rfl
  | succ n ih =>
    have h0 : ¬ l.pc = 0 := by omega
    have h1 : ¬ l.pc = 1 := by omega
    have h2 : ¬ l.pc = 2 := by omega
    simp only [alone, closureSys, closureStep, h0, h1, h2, if_false]
    exact ih

theorem alone_fresh (outcome : Nat → Nat → Outcome) (t n s ev : Nat) (g : String → Option Nat) :
    (alone (closureSys [] outcome) t (n + 3) g (fresh s ev)).2
      = { sink := s, event := ev, pc := 3, echo := some ev, err := (outcome s ev).1,
          data := (outcome s ev).2, ret := some (outcome s ev) } := by
  have : alone (closureSys [] outcome) t (n + 3) g (fresh s ev)
      = alone (closureSys [] outcome) t n g
          { sink := s, event := ev, pc := 3, echo := some ev, err := (outcome s ev).1,
            data := (outcome s ev).2, ret := some (outcome s ev) } := by
    simp [alone, closureSys, closureStep, fresh, wrShared]
  rw [this, alone_done _ _ _ _ _ _ (by simp)]

theorem alone_never_wrong (outcome : Nat → Nat → Outcome) (t n s ev : Nat) (g : String → Option Nat) :
    let l := (alone (closureSys [] outcome) t n g (fresh s ev)).2
    (l.ret = none ∨ l.ret = some (outcome s ev)) ∧ (l.echo = none ∨ l.echo = some ev) := by
  match n with
  | 0 => simp [alone, fresh]
  | 1 => simp [alone, closureSys, closureStep, fresh, wrShared]
  | 2 => simp [alone, closureSys, closureStep, fresh, wrShared]
  | n + 3 => rw [alone_fresh]; simp

end Ecal.Closure
