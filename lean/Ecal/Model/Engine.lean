/-!
# Model of the ECA engine's rule matching (engine/rule.go, engine/util.go, engine/processor.go)

Follows the Go code of the repaired tree (fix commits 9d82a0e, 1d04360):

* `Idx`        — the rule index tree: `RuleIndexKind` (wildcard list, exact-segment map, each a list of
                 sub-indexes: at most one per type, except that a *full* state leaf — 63 rules — is
                 skipped and a further one is appended), `RuleIndexState` (rules + one `KeyMatcher` per
                 state key, one bit per rule in a `BitVec 64`), `RuleIndexAll`.
* `addAt`      — `addRuleAtLevel`;  `matchAt` — `matchAtLevel`;  `trigAt` — `isTriggeringAtLevel`.
                 The recursion is on the remaining kind segments (`event.kind[level:]`).
* `kmAdd/kmMatch/kmUnmatch` — `RuleMatcherKey.addRule/match/unmatch` with the exact bit formulas;
                 hashable values live in `bitsValue`, lists/maps in the deep-compared `bitsDeep`.
* `collect`    — the bit collection loop with fuel: `Out.hang` when the fuel runs out (the Go loop never
                 ends once bit 63 of the mask is set), `Out.panic` for `ri.rules[i]` out of range.
* `Root`       — `ruleIndexRoot` (refuses a second rule of the same name; registers the name before the
                 kind check).
* `Scope`      — the `RuleScope` trie (`Add`, `IsAllowed`).
* `processEvent` — candidates de-duplicated by name, scope filter, suppression set, sort by priority.
* `Proc`       — the processor's trigger cache, keyed by the kind (`fmt.Sprintf("%q", kind)` is injective).

Values are abstract: the property only needs equality and hashability. `Val.atom c` is a hashable
non-nil Go value of equality class `c` (Go `==` on interfaces), `Val.deep c` a list/map of
`reflect.DeepEqual` class `c`. Regular expressions are ids; `rx id v` stands for
`regex_id.MatchString(fmt.Sprint(v))` and is a parameter everywhere.
-/
namespace Ecal.Engine

abbrev Seg := String
abbrev W := BitVec 64

inductive Val where
  | null
  | atom (c : Nat)
  | deep (c : Nat)
  deriving DecidableEq, Repr, Inhabited

/-- a value of `Rule.StateMatch`: nil, a hashable value, a list/map, a `*regexp.Regexp` -/
inductive Pat where
  | any
  | atom (c : Nat)
  | deep (c : Nat)
  | rx (id : Nat)
  deriving DecidableEq, Repr, Inhabited

structure Rule where
  name : String
  kinds : List (List Seg)                   -- KindMatch, each entry split at "."
  scope : List (List Seg)                   -- ScopeMatch, each entry split at "."
  scopeNil : Bool := false                  -- ScopeMatch == nil (AddRule refuses the rule)
  state : Option (List (String × Pat))      -- StateMatch (none = nil map)
  prio : Int
  suppress : List String
  deriving DecidableEq, Repr, Inhabited

structure Event where
  name : String
  kind : List Seg
  state : List (String × Val)
  deriving DecidableEq, Repr, Inhabited

/-! ## association lists (Go maps; only looked up by key) -/

def alookup [DecidableEq κ] (k : κ) : List (κ × β) → Option β
  | [] => none
  | (k', v) :: rest => if k' = k then some v else alookup k rest

/-- replace the value of `k` or append a new entry -/
def aset [DecidableEq κ] (k : κ) (v : β) : List (κ × β) → List (κ × β)
  | [] => [(k, v)]
  | (k', v') :: rest => if k' = k then (k, v) :: rest else (k', v') :: aset k v rest

/-! ## outcomes -/

inductive Out (α : Type) where
  | ok (a : α)
  | panic
  | hang
  deriving Repr, DecidableEq

/-- run the parts in order, concatenating; the first failure wins -/
def Out.flat : List (Out (List α)) → Out (List α)
  | [] => .ok []
  | o :: rest =>
    match o with
    | .ok a => (match Out.flat rest with | .ok b => .ok (a ++ b) | e => e)
    | .panic => .panic
    | .hang => .hang

/-! ## RuleMatcherKey -/

structure KeyMatcher where
  bits : W := 0
  bitsAny : W := 0
  bitsValue : List (Nat × W) := []
  bitsRegexes : List (W × Nat) := []
  bitsDeep : List (Nat × W) := []
  deriving Repr, Inhabited

/-- `RuleMatcherKey.addRule` -/
def kmAdd (km : KeyMatcher) (bit : W) : Pat → KeyMatcher
  | .any => { km with bits := km.bits ||| bit, bitsAny := km.bitsAny ||| bit }
  | .rx id => { km with bits := km.bits ||| bit, bitsAny := km.bitsAny ||| bit,
                        bitsRegexes := aset bit id km.bitsRegexes }
  | .atom c => { km with bits := km.bits ||| bit,
                         bitsValue := aset c (((alookup c km.bitsValue).getD 0) ||| bit) km.bitsValue }
  | .deep c => { km with bits := km.bits ||| bit,
                         bitsDeep := aset c (((alookup c km.bitsDeep).getD 0) ||| bit) km.bitsDeep }

/-- the bits to clear for a present key with value `v` -/
def kmToRemove (km : KeyMatcher) : Val → W
  | .null => km.bitsAny ^^^ km.bits
  | .atom c =>
    match alookup c km.bitsValue with
    | some add => (km.bitsAny ||| add) ^^^ km.bits
    | none => km.bitsAny ^^^ km.bits
  | .deep c =>
    match alookup c km.bitsDeep with
    | some add => (km.bitsAny ||| add) ^^^ km.bits
    | none => km.bitsAny ^^^ km.bits

/-- one round of the regex loop -/
def rxStep (rx : Nat → Val → Bool) (v : Val) (acc : W) (e : W × Nat) : W :=
  if acc &&& e.1 ≠ 0 ∧ rx e.2 v = false then acc ^^^ (acc &&& e.1) else acc

/-- `RuleMatcherKey.match` -/
def kmMatch (rx : Nat → Val → Bool) (km : KeyMatcher) (bits : W) (v : Val) : W :=
  let toRemove := kmToRemove km v
  let keyMatched := bits ^^^ (bits &&& toRemove)
  km.bitsRegexes.foldl (rxStep rx v) keyMatched

/-- `RuleMatcherKey.unmatch` -/
def kmUnmatch (km : KeyMatcher) (bits : W) : W := bits ^^^ (bits &&& km.bits)

/-! ## the index tree -/

inductive Idx where
  | kind (all : List Idx) (single : List (Seg × List Idx))
  | state (rules : List Rule) (keys : List (String × KeyMatcher))
  | allLeaf (rules : List Rule)

instance : Inhabited Idx := ⟨.allLeaf []⟩

inductive Ty where
  | kind | state | allLeaf
  deriving DecidableEq, Repr

/-- `ruleIndexStateCapacity` -/
def capacity : Nat := 63

def newIdx : Ty → Idx
  | .kind => .kind [] []
  | .state => .state [] []
  | .allLeaf => .allLeaf []

/-- the sub-index can take a rule that needs index type `ty` (a full state leaf cannot) -/
def Idx.accepts (ty : Ty) : Idx → Bool
  | .kind _ _ => ty = .kind
  | .state rules _ => ty = .state && rules.length < capacity
  | .allLeaf _ => ty = .allLeaf

/-- apply `f` to the first element satisfying `p`, else to `new` appended at the end -/
def updFirst (p : Idx → Bool) (f : Idx → Idx) (new : Idx) : List Idx → List Idx
  | [] => [f new]
  | i :: rest => if p i then f i :: rest else i :: updFirst p f new rest

def leafTy (r : Rule) : Ty := if r.state.isSome then .state else .allLeaf

/-- one entry of the state pattern enters the key matchers of a leaf -/
def keyAdd (bit : W) (ks : List (String × KeyMatcher)) (kp : String × Pat) : List (String × KeyMatcher) :=
  aset kp.1 (kmAdd ((alookup kp.1 ks).getD {}) bit kp.2) ks

/-- `RuleIndexState.addRuleAtLevel` (`1 <<< n` is 0 for n ≥ 64, as in Go) -/
def stateAdd (r : Rule) (rules : List Rule) (keys : List (String × KeyMatcher)) : Idx :=
  .state (rules ++ [r]) ((r.state.getD []).foldl (keyAdd ((1 : W) <<< rules.length)) keys)

/-- `addRuleAtLevel`. The cases marked unreachable cannot occur through `AddRule`
    (`strings.Split` never returns an empty slice; a leaf is only chosen for the last segment). -/
def addAt (r : Rule) : List Seg → Idx → Idx
  | [], .state rules keys => stateAdd r rules keys
  | [], .allLeaf rules => .allLeaf (rules ++ [r])
  | [], .kind all single => .kind all single            -- unreachable (Go: index out of range)
  | item :: rest, .kind all single =>
    let ty : Ty := if rest.isEmpty then leafTy r else .kind
    if item = "*" then
      .kind (updFirst (Idx.accepts ty) (addAt r rest) (newIdx ty) all) single
    else
      .kind all (aset item (updFirst (Idx.accepts ty) (addAt r rest) (newIdx ty)
                             ((alookup item single).getD [])) single)
  | _ :: _, .state rules keys => .state rules keys      -- unreachable (Go: assertion)
  | _ :: _, .allLeaf rules => .allLeaf rules            -- unreachable

/-- the collection loop: `for i := 0; cb <= mb; i++ { if mb&cb > 0 { ret = append(ret, rules[i]) }; cb <<= 1 }` -/
def collect (rules : List Rule) (mb : W) : Nat → Nat → W → List Rule → Out (List Rule)
  | 0, _, _, _ => .hang
  | fuel + 1, i, cb, acc =>
    if cb ≤ mb then
      if mb &&& cb ≠ 0 then
        match rules[i]? with
        | some r => collect rules mb fuel (i + 1) (cb <<< 1) (acc ++ [r])
        | none => .panic
      else collect rules mb fuel (i + 1) (cb <<< 1) acc
    else .ok acc

/-- more rounds than any terminating run of the loop needs (it ends after at most 64) -/
def collectFuel : Nat := 100

/-- the loop over the key map with its early exit -/
def matchKeys (rx : Nat → Val → Bool) (ev : Event) : List (String × KeyMatcher) → W → W
  | [], mb => mb
  | (k, km) :: rest, mb =>
    let mb' := match alookup k ev.state with
      | some v => kmMatch rx km mb v
      | none => kmUnmatch km mb
    if mb' = 0 then 0 else matchKeys rx ev rest mb'

/-- `RuleIndexState.matchAtLevel` once the level check has passed -/
def stateMatch (rx : Nat → Val → Bool) (ev : Event) (rules : List Rule)
    (keys : List (String × KeyMatcher)) : Out (List Rule) :=
  let init : W := ((1 : W) <<< rules.length) - 1
  let mb := matchKeys rx ev keys init
  if mb = 0 then .ok [] else collect rules mb collectFuel 0 1 []

/-- `matchAtLevel`; the list argument is `event.kind[level:]` -/
def matchAt (rx : Nat → Val → Bool) (ev : Event) : List Seg → Idx → Out (List Rule)
  | [], .kind _ _ => .ok []
  | [], .state rules keys => stateMatch rx ev rules keys
  | [], .allLeaf rules => .ok rules
  | k :: ks, .kind all single =>
    Out.flat ((all ++ (alookup k single).getD []).map (matchAt rx ev ks))
  | _ :: _, .state _ _ => .ok []
  | _ :: _, .allLeaf _ => .ok []

/-- `isTriggeringAtLevel` -/
def trigAt : List Seg → Idx → Bool
  | [], .kind _ _ => false
  | [], .state _ _ => true
  | [], .allLeaf _ => true
  | k :: ks, .kind all single => (all ++ (alookup k single).getD []).any (trigAt ks)
  | _ :: _, .state _ _ => false
  | _ :: _, .allLeaf _ => false

/-! ## ruleIndexRoot -/

structure Root where
  idx : Idx := .kind [] []
  names : List String := []      -- keys of `ruleIndexRoot.rules`
  indexed : List Rule := []      -- ghost: the rules that entered the tree, in order

def addRuleIdx (idx : Idx) (r : Rule) : Idx := r.kinds.foldl (fun i k => addAt r k i) idx

/-- `ruleIndexRoot.AddRule` (after fix b2c3167: the index validates the rule before its name is
    registered, a refused rule leaves no trace); the flag is "an error was returned" -/
def Root.addRule (rt : Root) (r : Rule) : Root × Bool :=
  if r.name ∈ rt.names then (rt, true)
  else if r.kinds = [] ∨ r.scopeNil = true then (rt, true)
  else ({ idx := addRuleIdx rt.idx r, names := r.name :: rt.names, indexed := rt.indexed ++ [r] }, false)

/-- the code before b2c3167 registered the name first: a refused rule blocked its name (kept as a
    negative example, see `Props/C01.lean`) -/
def Root.addRuleOld (rt : Root) (r : Rule) : Root × Bool :=
  if r.name ∈ rt.names then (rt, true)
  else if r.kinds = [] ∨ r.scopeNil = true then ({ rt with names := r.name :: rt.names }, true)
  else ({ idx := addRuleIdx rt.idx r, names := r.name :: rt.names, indexed := rt.indexed ++ [r] }, false)

def buildIdx (rules : List Rule) : Idx := rules.foldl addRuleIdx (.kind [] [])

def Root.build (rules : List Rule) : Root := rules.foldl (fun rt r => (rt.addRule r).1) {}

def Root.matchEv (rx : Nat → Val → Bool) (rt : Root) (ev : Event) : Out (List Rule) :=
  matchAt rx ev ev.kind rt.idx

def Root.isTriggering (rt : Root) (ev : Event) : Bool := trigAt ev.kind rt.idx

/-! ## RuleScope -/

inductive Scope where
  | node (flag : Option Bool) (children : List (Seg × Scope))

def Scope.empty : Scope := .node none []

/-- `RuleScope.Add` (the path is `[]` for the scope path "", else the path split at ".") -/
def Scope.add (allow : Bool) : List Seg → Scope → Scope
  | [], .node _ ch => .node (some allow) ch
  | s :: rest, .node f ch => .node f (aset s (Scope.add allow rest ((alookup s ch).getD Scope.empty)) ch)

/-- the loop of `RuleScope.IsAllowed` below a node whose flag has already been looked at -/
def Scope.walk : List Seg → Scope → Bool → Bool
  | [], _, allowed => allowed
  | s :: rest, .node _ ch, allowed =>
    match alookup s ch with
    | none => allowed
    | some (.node f ch') => Scope.walk rest (.node f ch') (f.getD allowed)

/-- `RuleScope.IsAllowed` (the path is always the scope path split at ".", so `[""]` for "") -/
def Scope.isAllowed (sc : Scope) (path : List Seg) : Bool :=
  match sc with
  | .node f ch => Scope.walk path (.node f ch) (f.getD false)

def Scope.isAllowedAll (sc : Scope) (paths : List (List Seg)) : Bool := paths.all sc.isAllowed

def Scope.build (defs : List (List Seg × Bool)) : Scope :=
  defs.foldl (fun sc d => sc.add d.2 d.1) Scope.empty

/-- the flag stored for exactly this path (none: no such node, or no flag on it) -/
def Scope.flagAt : Scope → List Seg → Option Bool
  | .node f _, [] => f
  | .node _ ch, s :: rest =>
    match alookup s ch with
    | none => none
    | some c => Scope.flagAt c rest

/-! ## eventProcessor.ProcessEvent -/

/-- the first loop: skip names already seen, keep candidates in scope -/
def triggering (sc : Scope) : List Rule → List String → List Rule
  | [], _ => []
  | r :: rest, seen =>
    if r.name ∈ seen then triggering sc rest seen
    else if sc.isAllowedAll r.scope then r :: triggering sc rest (r.name :: seen)
    else triggering sc rest (r.name :: seen)

def executing (trig : List Rule) : List Rule :=
  let suppressed := trig.flatMap (·.suppress)
  trig.filter fun r => r.name ∉ suppressed

/-- the rules whose actions run for a candidate list, in execution order (order among equal
    priorities is not determined by `sort.Sort`; this model keeps the candidate order) -/
def execOrder (sc : Scope) (cands : List Rule) : List Rule :=
  (executing (triggering sc cands [])).mergeSort (fun a b => a.prio ≤ b.prio)

def processEvent (rx : Nat → Val → Bool) (rt : Root) (sc : Scope) (ev : Event) : Out (List Rule) :=
  match rt.matchEv rx ev with
  | .ok cands => .ok (execOrder sc cands)
  | .panic => .panic
  | .hang => .hang

/-! ## the trigger cache -/

structure Proc where
  root : Root
  cache : List (List Seg × Bool) := []

/-- `eventProcessor.IsTriggering` -/
def Proc.isTriggering (p : Proc) (ev : Event) : Bool × Proc :=
  match alookup ev.kind p.cache with
  | some b => (b, p)
  | none =>
    let b := p.root.isTriggering ev
    (b, { p with cache := aset ev.kind b p.cache })

/-- `AddEvent` followed by the task: `none` = the event was skipped (nil monitor) -/
def Proc.addEvent (rx : Nat → Val → Bool) (p : Proc) (sc : Scope) (ev : Event) :
    Option (Out (List Rule)) × Proc :=
  let r := p.isTriggering ev
  if r.1 then (some (processEvent rx r.2.root sc ev), r.2) else (none, r.2)

/-- the processor after a history of added events -/
def Proc.after (rx : Nat → Val → Bool) (sc : Scope) (p : Proc) (hist : List Event) : Proc :=
  hist.foldl (fun p ev => (p.addEvent rx sc ev).2) p

/-- `eventProcessor.AddRule` (processor stopped): the trigger cache is dropped, then the index decides -/
def Proc.addRule (p : Proc) (r : Rule) : Proc × Bool :=
  ({ root := (p.root.addRule r).1, cache := [] }, (p.root.addRule r).2)

/-- `eventProcessor.Reset` -/
def Proc.reset (_p : Proc) : Proc := { root := {}, cache := [] }

/-- one step of a processor's life: between events the processor may be finished, get rules, be reset
    and started again; every event comes with the scope of its cascade -/
inductive Op where
  | addRule (r : Rule)
  | addEvent (sc : Scope) (ev : Event)
  | reset

def Proc.step (rx : Nat → Val → Bool) (p : Proc) : Op → Proc
  | .addRule r => (p.addRule r).1
  | .addEvent sc ev => (p.addEvent rx sc ev).2
  | .reset => p.reset

def Proc.run (rx : Nat → Val → Bool) (p : Proc) (ops : List Op) : Proc := ops.foldl (Proc.step rx) p

/-- the rules handed to `AddRule` since the last `Reset` -/
def Op.rules (ops : List Op) : List Rule :=
  ops.foldl (fun acc op => match op with | .addRule r => acc ++ [r] | .addEvent _ _ => acc | .reset => []) []

/-- the execution loop of `ProcessEvent`: the rules whose action is called, given which actions
    return an error and the flag `failOnFirstError` -/
def runRules (failFirst : Bool) (fails : Rule → Bool) : List Rule → List Rule
  | [] => []
  | r :: rest => if failFirst && fails r then [r] else r :: runRules failFirst fails rest

/-- what Go guarantees about a rule: `strings.Split` never returns an empty slice, and the keys of
    the `StateMatch` map are distinct -/
def Rule.WF (r : Rule) : Prop := (∀ p ∈ r.kinds, p ≠ []) ∧ ((r.state.getD []).map (·.1)).Nodup

/-! ## the specification -/

namespace Spec

/-- a kind pattern matches a kind: same number of segments, each equal or `*` -/
def patMatch : List Seg → List Seg → Bool
  | [], [] => true
  | p :: ps, k :: ks => (p = "*" || p = k) && patMatch ps ks
  | _, _ => false

def admits (rx : Nat → Val → Bool) : Pat → Val → Bool
  | .any, _ => true
  | .atom c, v => v = .atom c
  | .deep c, v => v = .deep c
  | .rx id, v => rx id v

def kindOK (r : Rule) (ev : Event) : Bool := r.kinds.any (patMatch · ev.kind)

/-- every required key is present with an admitted value -/
def stateOK (rx : Nat → Val → Bool) (r : Rule) (ev : Event) : Bool :=
  (r.state.getD []).all fun kp =>
    match alookup kp.1 ev.state with
    | some v => admits rx kp.2 v
    | none => false

/-- how often the index must return rule `x`: once per kind pattern of `x` that matches (and per
    copy of `x` in the rule list), if the state pattern of `x` admits the event — else not at all -/
def matchCount (rx : Nat → Val → Bool) (rules : List Rule) (ev : Event) (x : Rule) : Nat :=
  if stateOK rx x ev then rules.count x * x.kinds.countP (patMatch · ev.kind) else 0

def scopeOK (allowed : List Seg → Bool) (r : Rule) : Bool := r.scope.all allowed

def triggers (rx : Nat → Val → Bool) (allowed : List Seg → Bool) (ev : Event) (r : Rule) : Bool :=
  kindOK r ev && stateOK rx r ev && scopeOK allowed r

/-- rule name `n` must run for the event -/
def fires (rx : Nat → Val → Bool) (rules : List Rule) (allowed : List Seg → Bool) (ev : Event)
    (n : String) : Prop :=
  (∃ r ∈ rules, r.name = n ∧ triggers rx allowed ev r = true) ∧
  ¬ ∃ r' ∈ rules, triggers rx allowed ev r' = true ∧ n ∈ r'.suppress

/-- executable form of `fires` (used by the driver as a cross-check of the model against the spec) -/
def firesList (rx : Nat → Val → Bool) (rules : List Rule) (allowed : List Seg → Bool) (ev : Event) :
    List String :=
  let trig := rules.filter (triggers rx allowed ev)
  let supp := trig.flatMap (·.suppress)
  (trig.map (·.name)).filter (· ∉ supp)

/-- the rules of a list that `AddRule` accepts one after the other: kind match and scope match are
    there and no earlier ACCEPTED rule has the name (a refused rule does not block its name) -/
def accepted : List Rule → List String → List Rule
  | [], _ => []
  | r :: rest, seen =>
    if r.name ∈ seen then accepted rest seen
    else if r.kinds = [] ∨ r.scopeNil = true then accepted rest seen
    else r :: accepted rest (r.name :: seen)

/-- flag of the longest prefix of the path on which `d` is defined -/
def longest (d : List Seg → Option Bool) : List Seg → Option Bool
  | [] => d []
  | s :: rest => (longest (fun q => d (s :: q)) rest).or (d [])

/-- the flag given to path `q` by the last definition for `q` in a sequence of `Add` calls -/
def lastDef : List (List Seg × Bool) → List Seg → Option Bool
  | [], _ => none
  | d :: rest, q => (lastDef rest q).or (if d.1 = q then some d.2 else none)

end Spec

end Ecal.Engine
