/-!
Prototype model of engine/rule.go (pinned commit, unrepaired): the rule index tree with its three
sub-index types, the 64-bit state matcher, IsTriggering and Match.  `Out.panic` = Go panic
(unhashable value), `Out.hang` = the collection loop that never ends once bit 63 is set.
-/
namespace Ecal.Engine

inductive SVal where
  | any                     -- nil in a state match: key must be present
  | num (n : Int) | str (s : String) | bool (b : Bool)
  | list                    -- an unhashable value
  deriving DecidableEq, Repr, Inhabited

structure Rule where
  name : String
  kinds : List (List String)
  state : Option (List (String × SVal))
  deriving Repr, Inhabited

structure Event where
  kind : List String
  state : List (String × SVal)        -- `any` here = key present with nil value
  deriving Repr, Inhabited

structure KeyMatcher where
  bits : UInt64 := 0
  bitsAny : UInt64 := 0
  bitsValue : List (SVal × UInt64) := []
  deriving Repr, Inhabited

inductive Out (α : Type) where
  | ok (a : α) | panic | hang
  deriving Repr

instance : Monad Out where
  pure := Out.ok
  bind x f := match x with | .ok a => f a | .panic => .panic | .hang => .hang

inductive Idx where
  | kind (all : List Idx) (single : List (String × List Idx))
  | state (rules : List String) (keys : List (String × KeyMatcher))
  | allLeaf (rules : List String)
  deriving Repr, Inhabited

inductive Ty | kind | state | allLeaf deriving DecidableEq

def Idx.ty : Idx → Ty | .kind .. => .kind | .state .. => .state | .allLeaf .. => .allLeaf

def newIdx : Ty → Idx
  | .kind => .kind [] [] | .state => .state [] [] | .allLeaf => .allLeaf []

def kmAdd (km : KeyMatcher) (bit : UInt64) (v : SVal) : Out KeyMatcher :=
  let km := { km with bits := km.bits ||| bit }
  match v with
  | .any => .ok { km with bitsAny := km.bitsAny ||| bit }
  | .list => .panic                                   -- rm.bitsValue[value] with a slice
  | v =>
    let cur := (km.bitsValue.find? (·.1 == v)).map (·.2) |>.getD 0
    .ok { km with bitsValue := (km.bitsValue.filter (·.1 != v)) ++ [(v, cur ||| bit)] }

partial def addAt (rule : Rule) (levels : List String) (idx : Idx) : Out Idx :=
  match idx with
  | .kind all single =>
    match levels with
    | [] => .panic
    | item :: rest =>
      let ty : Ty := if rest.isEmpty then (if rule.state.isSome then .state else .allLeaf) else .kind
      let lst : List Idx := if item == "*" then all else (single.find? (·.1 == item)).map (·.2) |>.getD []
      -- existing sub index of that type, else a new one at the end
      let (pre, found, post) :=
        match lst.span (fun i => i.ty != ty) with
        | (pre, f :: post) => (pre, f, post)
        | (pre, []) => (pre, newIdx ty, [])
      do
        let found' ← addAt rule rest found
        let lst' := pre ++ [found'] ++ post
        if item == "*" then pure (.kind lst' single)
        else
          let single' := if (single.find? (·.1 == item)).isSome then single.map fun p => if p.1 == item then (item, lst') else p
                         else single ++ [(item, lst')]
          pure (.kind all single')
  | .state rules keys =>
    let num := rules.length
    let bit : UInt64 := if num < 64 then (1 : UInt64) <<< num.toUInt64 else 0       -- 1 << num wraps to 0
    do
      let keys' ← (rule.state.getD []).foldlM (fun (ks : List (String × KeyMatcher)) (kv : String × SVal) => do
        let km := (ks.find? (·.1 == kv.1)).map (·.2) |>.getD {}
        let km' ← kmAdd km bit kv.2
        pure ((ks.filter (·.1 != kv.1)) ++ [(kv.1, km')])) keys
      pure (.state (rules ++ [rule.name]) keys')
  | .allLeaf rules => .ok (.allLeaf (rules ++ [rule.name]))

def addRule (idx : Idx) (r : Rule) : Out Idx :=
  r.kinds.foldlM (fun i k => addAt r k i) idx

def kmMatch (km : KeyMatcher) (bits : UInt64) (v : SVal) : Out UInt64 :=
  match v with
  | .any => .ok (bits ^^^ (bits &&& (km.bitsAny ^^^ km.bits)))
  | .list => .panic                                   -- hashing the event's value
  | v =>
    let toRemove := match km.bitsValue.find? (·.1 == v) with
      | some (_, add) => (km.bitsAny ||| add) ^^^ km.bits
      | none => km.bitsAny ^^^ km.bits
    .ok (bits ^^^ (bits &&& toRemove))

def collect (rules : List String) (mb : UInt64) : Out (List String) :=
  let rec go (fuel : Nat) (i : Nat) (cb : UInt64) (acc : List String) : Out (List String) :=
    match fuel with
    | 0 => .hang
    | f+1 =>
      if cb ≤ mb then
        go f (i + 1) (cb <<< 1) (if mb &&& cb > 0 then acc ++ [rules.getD i "?"] else acc)
      else .ok acc
  go 200 0 1 []

partial def matchAt (ev : Event) (level : Nat) : Idx → Out (List String)
  | .kind all single =>
    if ev.kind.length ≤ level then .ok []
    else do
      let a ← all.foldlM (fun acc i => do pure (acc ++ (← matchAt ev (level + 1) i))) []
      let lst := (single.find? (·.1 == ev.kind.getD level "")).map (·.2) |>.getD []
      lst.foldlM (fun acc i => do pure (acc ++ (← matchAt ev (level + 1) i))) a
  | .state rules keys =>
    if ev.kind.length != level then .ok []
    else do
      let n := rules.length
      let init : UInt64 := (if n < 64 then (1 : UInt64) <<< n.toUInt64 else 0) - 1
      -- Go iterates the key map in random order and stops early when no bit is left; a panic that
      -- a later key would raise is therefore order dependent – the model flags that case
      let mb ← keys.foldlM (fun (mb : UInt64) (kk : String × KeyMatcher) =>
        match ev.state.find? (·.1 == kk.1) with
        | some (_, v) => kmMatch kk.2 mb v
        | none => pure (mb ^^^ (mb &&& kk.2.bits))) init
      if mb == 0 then pure [] else collect rules mb
  | .allLeaf rules => if ev.kind.length != level then .ok [] else .ok rules

partial def trigAt (ev : Event) (level : Nat) : Idx → Bool
  | .kind all single =>
    if ev.kind.length ≤ level then false
    else all.any (trigAt ev (level + 1)) ||
      ((single.find? (·.1 == ev.kind.getD level "")).map (·.2) |>.getD []).any (trigAt ev (level + 1))
  | .state .. => ev.kind.length == level
  | .allLeaf .. => ev.kind.length == level

end Ecal.Engine
