/-!
# Model of the thread-id generator (`ThreadPool.NewThreadID`, engine/pool/threadpool.go)

`Ecal.Mutex` assumes that thread ids are > 0 and pairwise distinct. This file models where they
come from: a counter (initially 1) that every caller reads and increments.

```
 acquire c   workerIDLock.Lock()          (only with `locked = true`; enabled when the lock is free)
 load c      res := workerIDCount
 add c       workerIDCount++
 release c   workerIDLock.Unlock(); return res      (the id is issued)
```

`step true` is the code as it is (read and increment inside ONE critical section — equivalently
one atomic fetch-and-add); `step false` is the same two accesses without the lock ("load, then
add": each access atomic by itself). Callers are numbers; any number of them, any interleaving.
-/
namespace Ecal.ThreadId

inductive Pc where
  | idle
  | entered            -- inside NewThreadID, nothing read yet
  | loaded (v : Nat)   -- res = v
  | added (v : Nat)    -- res = v, counter incremented
  deriving DecidableEq, Repr

structure State where
  ctr : Nat
  holder : Option Nat
  pc : Nat → Pc
  issued : List Nat

inductive Event where
  | acquire (c : Nat)
  | load (c : Nat)
  | add (c : Nat)
  | release (c : Nat)
  | reset              -- `workerIDCount = 1` (not part of the protocol: only `stepR` enables it)
  deriving DecidableEq, Repr

def init : State := { ctr := 1, holder := none, pc := fun _ => .idle, issued := [] }

def setPc (s : State) (c : Nat) (p : Pc) : State := { s with pc := fun x => if x = c then p else s.pc x }

/-- `locked = true`: the accesses are bracketed by the lock; `false`: no lock is taken -/
def step (locked : Bool) (s : State) : Event → Option State
  | .acquire c =>
    if s.pc c = .idle ∧ (locked = true → s.holder = none) then
      some (setPc { s with holder := if locked then some c else s.holder } c .entered)
    else none
  | .load c =>
    if s.pc c = .entered then some (setPc s c (.loaded s.ctr)) else none
  | .add c =>
    match s.pc c with
    | .loaded v => some (setPc { s with ctr := s.ctr + 1 } c (.added v))
    | _ => none
  | .release c =>
    match s.pc c with
    | .added v =>
      some (setPc { s with holder := if locked then none else s.holder, issued := v :: s.issued } c .idle)
    | _ => none
  | .reset => none

/-- the protocol extended by a reset of the counter to its initial value (what a pool that
    "numbers its workers from the beginning again" after a restart would do) -/
def stepR (locked : Bool) (s : State) : Event → Option State
  | .reset => some { s with ctr := 1 }
  | e => step locked s e

def runR (locked : Bool) (s : State) : List Event → Option State
  | [] => some s
  | e :: es => match stepR locked s e with
    | some s' => runR locked s' es
    | none => none

def run (locked : Bool) (s : State) : List Event → Option State
  | [] => some s
  | e :: es => match step locked s e with
    | some s' => run locked s' es
    | none => none

inductive Reach (locked : Bool) : State → Prop
  | init : Reach locked init
  | step {s s' e} : Reach locked s → step locked s e = some s' → Reach locked s'

/-- invariant of the locked protocol -/
structure Inv (s : State) : Prop where
  excl : ∀ c, s.pc c ≠ .idle → s.holder = some c
  below : ∀ i, i ∈ s.issued → 1 ≤ i ∧ i < s.ctr
  nodup : s.issued.Nodup
  pos : 1 ≤ s.ctr
  ld : ∀ c v, s.pc c = .loaded v → v = s.ctr
  ad : ∀ c v, s.pc c = .added v → v + 1 = s.ctr ∧ 1 ≤ v ∧ ∀ i, i ∈ s.issued → i < v

theorem inv_init : Inv init := by
  constructor <;> simp [init]

@[simp] theorem setPc_pc (s : State) (c : Nat) (p : Pc) (x : Nat) :
    (setPc s c p).pc x = if x = c then p else s.pc x := rfl
@[simp] theorem setPc_ctr (s : State) (c : Nat) (p : Pc) : (setPc s c p).ctr = s.ctr := rfl
@[simp] theorem setPc_holder (s : State) (c : Nat) (p : Pc) : (setPc s c p).holder = s.holder := rfl
@[simp] theorem setPc_issued (s : State) (c : Nat) (p : Pc) : (setPc s c p).issued = s.issued := rfl

/-- while caller `c` is inside, every other caller is idle -/
theorem others_idle {s : State} (h : Inv s) {c : Nat} (hc : s.pc c ≠ .idle) (x : Nat) (hx : x ≠ c) :
    s.pc x = .idle := by
  cases hp : s.pc x with
  | idle => rfl
  | _ =>
    have h1 := h.excl c hc
    have h2 := h.excl x (by simp [hp])
    rw [h1] at h2
    exact absurd (Option.some.inj h2).symm hx

theorem inv_step {s s' : State} {e : Event} (h : Inv s) (hs : step true s e = some s') : Inv s' := by
  cases e with
  | acquire c =>
    simp only [step] at hs
    split at hs <;> cases hs
    rename_i hc
    have hn : s.holder = none := by simpa using hc.2
    have hall : ∀ x, s.pc x = .idle := by
      intro x
      cases hp : s.pc x with
      | idle => rfl
      | _ => have := h.excl x (by simp [hp]); simp [hn] at this
    constructor
    · intro x hx
      by_cases e : x = c
      · simp [e]
      · simp [e, hall x] at hx
    · simpa using h.below
    · simpa using h.nodup
    · simpa using h.pos
    · intro x v hx
      by_cases e : x = c <;> simp [e, hall x] at hx
    · intro x v hx
      by_cases e : x = c <;> simp [e, hall x] at hx
  | load c =>
    simp only [step] at hs
    split at hs <;> cases hs
    rename_i hc
    have hoth := others_idle h (c := c) (by simp [hc])
    constructor
    · intro x hx
      by_cases e : x = c
      · subst e; exact h.excl x (by simp [hc])
      · simp [e, hoth x e] at hx
    · simpa using h.below
    · simpa using h.nodup
    · simpa using h.pos
    · intro x v hx
      by_cases e : x = c
      · simp [e] at hx; simp [hx]
      · simp [e, hoth x e] at hx
    · intro x v hx
      by_cases e : x = c
      · simp [e] at hx
      · simp [e, hoth x e] at hx
  | add c =>
    simp only [step] at hs
    split at hs
    · rename_i v hc
      cases hs
      have hoth := others_idle h (c := c) (by simp [hc])
      have hv := h.ld c v hc
      constructor
      · intro x hx
        by_cases e : x = c
        · subst e; exact h.excl x (by simp [hc])
        · simp [e, hoth x e] at hx
      · intro i hi
        have := h.below i (by simpa using hi)
        simp; omega
      · simpa using h.nodup
      · simp
      · intro x w hx
        by_cases e : x = c
        · simp [e] at hx
        · simp [e, hoth x e] at hx
      · intro x w hx
        by_cases e : x = c
        · simp [e] at hx
          subst hx
          have hpos := h.pos
          refine ⟨by simp [hv], by omega, ?_⟩
          intro i hi
          have := h.below i (by simpa using hi)
          omega
        · simp [e, hoth x e] at hx
    · cases hs
  | release c =>
    simp only [step] at hs
    split at hs
    · rename_i v hc
      cases hs
      have hoth := others_idle h (c := c) (by simp [hc])
      have hv := h.ad c v hc
      have hall : ∀ x, (if x = c then Pc.idle else s.pc x) = .idle := by
        intro x; by_cases e : x = c <;> simp [e, hoth x]
      constructor
      · intro x hx; simp [hall x] at hx
      · intro i hi
        simp at hi
        rcases hi with rfl | hi
        · have h2 := hv.1; have h3 := hv.2.1
          show 1 ≤ i ∧ i < s.ctr
          omega
        · have := h.below i hi; simpa using this
      · simp
        refine ⟨?_, h.nodup⟩
        intro hm; have := hv.2.2 v hm; omega
      · simpa using h.pos
      · intro x w hx; simp [hall x] at hx
      · intro x w hx; simp [hall x] at hx
    · cases hs
  | reset => simp [step] at hs

theorem inv_reach {s : State} (h : Reach true s) : Inv s := by
  induction h with
  | init => exact inv_init
  | step _ hs ih => exact inv_step ih hs

/-! ## What the extracted shape of `NewThreadID` must satisfy

The extractor (`harness C12 -tool skeleton`) lists, in source order, the lock operations and the
accesses to the counter field in the body of `NewThreadID`:
`lock` / `unlock` (of the first lock used; `lock2`/`unlock2` for any other), `read`, `inc`
(plain accesses), `aload`, `aadd-unused`, `aadd-used` (sync/atomic), `write` (anything else). -/

def isAccess (t : String) : Bool :=
  t = "read" || t = "inc" || t = "aload" || t = "aadd-unused" || t = "aadd-used" || t = "write"

/-- one critical section: `lock`, then only plain reads/increments (at least one of each, in any
    order: the id may be the value before or after the increment), then `unlock`; nothing before
    or after touches the counter -/
def oneSection (ts : List String) : Bool :=
  match ts.dropWhile (fun t => !isAccess t && t != "lock") with
  | "lock" :: rest =>
    let inside := rest.takeWhile (· != "unlock")
    let after := rest.dropWhile (· != "unlock")
    inside.all (fun t => t = "read" || t = "inc") && inside.contains "read" && inside.contains "inc" &&
      after.head? = some "unlock" && !(after.any isAccess) &&
      !((ts.takeWhile (· != "lock")).any isAccess)
  | _ => false

/-- one atomic read-modify-write whose result is the id -/
def oneAtomicRmw (ts : List String) : Bool := ts.filter isAccess = ["aadd-used"]

/-- the read and the increment of the counter cannot be separated by another caller -/
def isAtomicAlloc (ts : List String) : Bool := oneSection ts || oneAtomicRmw ts

/-! ## The counter is only ever incremented

The extractor lists every place in package `engine/pool` that writes the id counter field:
`inc` (`x++`, `x += k`, `atomic.Add…(&x, k)` with a positive literal), `init` (a composite
literal of the pool type — the constructor), `assign` (any other assignment), `dec`, and
`unknown` (address taken, anything the extractor does not understand). Three-valued: `none` =
cannot tell. -/

def counterMonotone (ws : List (String × String)) : Option Bool :=
  if ws.any (fun w => w.2 != "inc" && w.2 != "init" && w.2 != "assign" && w.2 != "dec") then none
  else some (ws.all (fun w => w.2 = "inc" || w.2 = "init") && ws.any (fun w => w.2 = "inc"))

end Ecal.ThreadId
