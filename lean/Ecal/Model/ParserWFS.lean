import Ecal.Model.ParserWF
/-!
`WellFormedS` — the strict form of `WellFormed` (Model/ParserWF.lean, kept unchanged because the C04/C06
bridges are built on it): the same per-kind clauses, plus what the consumers need to WALK the tree
(review of C07, item "walkability"; consumers: rt_statements.go:636/639/665, rt_general.go error
constructors, rt_func.go:102/166, rt_sink.go:171 read `Children[k].Token` / `Children[0].Children[0].Token`):

* the token clause is part of the PARENT's shape: a child signature says whether the child carries a token,
  and every OPERAND position demands one. A token-less node can therefore only stand where the parent's kind
  asks for a constructed node by name (statements, params, guard, funccall, compaccess) — and the token-less
  `true` only as the sole child of a guard (the `else` branch);
* `as` has exactly one child, an identifier; `except` = string* (as | identifier)? statements;
  the clauses of `try` and the name children of function / sink / mutex carry tokens.
-/
namespace Ecal.Parse
open Ecal.Lex

/-- what a parent looks at in a child: its name, its number of children, whether it carries a token -/
abbrev SigS := String × Nat × Bool

def sigOfS : Option Node → SigS
  | some n => (n.name, n.children.length, n.tok.isSome)
  | none => ("<nil>", 0, false)

/-- operand position: the child carries a token (the consumers read `Children[k].Token`) -/
def opOk (cs : List SigS) : Bool := cs.all (·.2.2)

def ifShapeS : List SigS → Bool
  | [] => true
  | (g, k, _) :: (s, _, _) :: r => g = "guard" && k = 1 && s = "statements" && ifShapeS r
  | [_] => false

/-- `except` = string* (as | identifier)? statements, the strings / as / identifier carrying tokens -/
def exceptShape : List SigS → Bool
  | [] => false
  | [s] => s.1 = "statements"
  | a :: b :: r =>
    if r.isEmpty then (a.1 = "string" || a.1 = "as" || a.1 = "identifier") && a.2.2 && b.1 = "statements"
    else a.1 = "string" && a.2.2 && exceptShape (b :: r)

def shapeOkS (name : String) (cs : List SigS) : Bool :=
  match kindOf name with
  | .terminal => cs.isEmpty
  | .binary => cs.length = 2 && opOk cs
  | .plusminus => (cs.length = 1 || cs.length = 2) && opOk cs
  | .prefix1 => cs.length = 1 && opOk cs
  | .one =>
    if name = "as" then cs.map (·.1) = ["identifier"] && opOk cs
    else if name = "guard" then match cs with   -- guard(expression) or, for `else`, guard(true) with a token-less `true`
      | [s] => s.2.2 || (s.1 = "true" && s.2.1 = 0)
      | _ => false
    else cs.length = 1 && opOk cs               -- compaccess(expression)
  | .return_ => cs.length ≤ 1 && opOk cs
  | .import_ => cs.map (·.1) = ["string", "identifier"] && opOk cs
  | .identifier => cs.all fun s => (s.1 = "identifier" && s.2.2) || s.1 = "funccall" || (s.1 = "compaccess" && s.2.1 = 1)
  | .if_ => ifShapeS cs
  | .loop => match cs with
    | [(g, k, t), (s, _, _)] => s = "statements" && ((g = "guard" && k = 1) || (g = "in" && k = 2 && t))
    | _ => false
  | .try_ => match cs with
    | (s, _, _) :: r => s = "statements" && r.all fun c => (c.1 = "except" || c.1 = "otherwise" || c.1 = "finally") && c.2.2
    | [] => false
  | .except => exceptShape cs
  | .blockOnly => cs.map (·.1) = ["statements"]
  | .function => (cs.map (·.1) = ["params", "statements"]) ||
      (cs.map (·.1) = ["identifier", "params", "statements"] && opOk (cs.take 1))
  | .sink => match cs with
    | (i, _, t) :: r => i = "identifier" && t && (r.getLast?.map (·.1)) = some "statements" && opOk r.dropLast
    | [] => false
  | .mutex => cs.map (·.1) = ["identifier", "statements"] && opOk (cs.take 1)
  | .container => opOk cs          -- list / map / funccall / params / statements: expression results
  | .unknown => false   -- every node name is a known node kind (no `""` block-brace node, no `"?"`)

mutual
/-- the tree below (and including) a node is well formed. The token clause is part of the PARENT's shape
    (`Sig` carries "has a token"): a node without token can only stand where its parent's kind asks for a
    constructed node by name (statements, params, guard, funccall, compaccess, the `true` of an else-guard). -/
def WellFormedS : Node → Bool
  | .mk name _ _ _ _ cs _ => shapeOkS name (cs.map sigOfS) && kidsWFS cs
def kidsWFS : List (Option Node) → Bool
  | [] => true
  | none :: _ => false
  | some c :: r => WellFormedS c && kidsWFS r
end

/-- a whole parse result: well formed, and the root carries a token unless it is the top-level statements node -/
def WellFormedRoot (n : Node) : Bool := WellFormedS n && (n.tok.isSome || n.name = "statements")

end Ecal.Parse
