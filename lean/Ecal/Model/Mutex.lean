/-!
# Model of named mutex blocks (`mutexRuntime.Eval`, interpreter/rt_statements.go)

Shared state, per mutex name (names are numbers here):
* `created` — the `*sync.Mutex` exists in `erp.Mutexes` (created on first use),
* `locked`  — state of that `sync.Mutex`,
* `owner`   — `erp.MutexeOwners[name]` (0 = absent / free; thread ids are > 0),
* `ctr`     — a shared variable that the program updates only inside blocks of this name,
* `holder`, `incs` — **ghost** fields (never read by `step`'s enabling conditions): the thread
  that holds the `sync.Mutex`, and the number of completed increments of `ctr`.

Per thread: a program counter inside `mutexRuntime.Eval`, the stack of mutex-block frames the
thread is executing in (`acquired` = this activation took the lock and has the deferred
release), and a pending read-modify-write (`rmw`: name and value read).

Events follow `mutexRuntime.Eval` statement by statement:

```
 look t a      MutexesMutex.Lock(); mutex := Mutexes[a] (create); owner := MutexeOwners[a]; MutexesMutex.Unlock()
 decide t      if !ok || owner != tid { … } else { re-entrant }      (uses the value read in `look`)
 lock t        mutex.Lock()                                          (enabled only when unlocked)
 setOwner t    MutexesMutex.Lock(); MutexeOwners[a] = tid; MutexesMutex.Unlock(); defer release; body starts
 bodyEnd t k   the body returns with outcome k (normal end, error, return, break, continue):
               Eval returns, the deferred function (if this activation registered one) starts
 resetOwner t  MutexesMutex.Lock(); MutexeOwners[a] = 0; MutexesMutex.Unlock()
 unlock t      mutex.Unlock()
 read t a / write t   tmp := ctr[a]  /  ctr[a] := tmp + 1    (only inside a block of name a)
```

Every section guarded by the table lock `MutexesMutex` is one atomic event (the extracted
synchronisation skeleton, `Ecal.Gen.C12`, shows each table access bracketed by Lock/Unlock of
that one lock). What a thread does between these events (the ECAL code of the body) is not
constrained: any thread may start a new block, end the innermost one with any outcome, or
touch a counter whenever its program counter is `run` — the model over-approximates all
programs and all schedules.
-/
namespace Ecal.Mutex

inductive Outcome where
  | normal | error | ret | brk | cont | panic
  deriving DecidableEq, Repr

structure Frame where
  name : Nat
  acquired : Bool
  deriving DecidableEq, Repr

inductive Pc where
  | run                       -- executing ECAL code (outside Eval's entry / exit protocol)
  | decide (a o : Nat)        -- after the table section: read owner value `o` for name `a`
  | wantLock (a : Nat)        -- decided to lock (owner ≠ tid); blocked until the mutex is free
  | lockedNoOwner (a : Nat)   -- holds the sync.Mutex, ownership not yet registered
  | releasing (a : Nat)       -- body ended, deferred function started, owner still registered
  | unlocking (a : Nat)       -- owner reset to 0, sync.Mutex still held
  deriving DecidableEq, Repr

structure Thread where
  pc : Pc
  stack : List Frame
  rmw : Option (Nat × Nat)
  deriving DecidableEq, Repr

structure MState where
  created : Bool
  locked : Bool
  owner : Nat
  holder : Option Nat
  ctr : Nat
  incs : Nat
  deriving DecidableEq, Repr

structure State where
  mtx : Nat → MState
  thr : Nat → Thread

inductive Event where
  | look (t a : Nat)
  | decide (t : Nat)
  | lock (t : Nat)
  | setOwner (t : Nat)
  | bodyEnd (t : Nat) (k : Outcome)
  | resetOwner (t : Nat)
  | unlock (t : Nat)
  | read (t a : Nat)
  | write (t : Nat)
  deriving DecidableEq, Repr

def idle : Thread := { pc := .run, stack := [], rmw := none }

def init : State :=
  { mtx := fun _ => { created := false, locked := false, owner := 0, holder := none, ctr := 0, incs := 0 },
    thr := fun _ => idle }

def setThr (s : State) (t : Nat) (th : Thread) : State :=
  { s with thr := fun x => if x = t then th else s.thr x }

def setMtx (s : State) (a : Nat) (m : MState) : State :=
  { s with mtx := fun b => if b = a then m else s.mtx b }

/-- some frame of the stack belongs to a block of name `a` and acquired the lock -/
def hasAcq (st : List Frame) (a : Nat) : Bool := st.any fun f => f.name == a && f.acquired

/-- the thread executes inside a block of name `a` -/
def inBlock (st : List Frame) (a : Nat) : Bool := st.any fun f => f.name == a

/-- a read-modify-write that was started inside the block that is being left is abandoned -/
def clearRmw (r : Option (Nat × Nat)) (a : Nat) : Option (Nat × Nat) :=
  match r with
  | some (b, v) => if b = a then none else some (b, v)
  | none => none

/-- The transition function. `none` = the event is not enabled in `s`. -/
def step (s : State) (e : Event) : Option State :=
  match e with
  | .look t a =>
    if t ≠ 0 ∧ (s.thr t).pc = .run then
      some (setThr (setMtx s a { s.mtx a with created := true }) t
        { s.thr t with pc := .decide a (s.mtx a).owner })
    else none
  | .decide t =>
    match (s.thr t).pc with
    | .decide a o =>
      if o = t then
        some (setThr s t { s.thr t with pc := .run, stack := ⟨a, false⟩ :: (s.thr t).stack })
      else some (setThr s t { s.thr t with pc := .wantLock a })
    | _ => none
  | .lock t =>
    match (s.thr t).pc with
    | .wantLock a =>
      if (s.mtx a).locked = false then
        some (setThr (setMtx s a { s.mtx a with locked := true, holder := some t }) t
          { s.thr t with pc := .lockedNoOwner a })
      else none
    | _ => none
  | .setOwner t =>
    match (s.thr t).pc with
    | .lockedNoOwner a =>
      some (setThr (setMtx s a { s.mtx a with owner := t }) t
        { s.thr t with pc := .run, stack := ⟨a, true⟩ :: (s.thr t).stack })
    | _ => none
  | .bodyEnd t _ =>
    match (s.thr t).pc, (s.thr t).stack with
    | .run, f :: rest =>
      if f.acquired then
        some (setThr s t { pc := .releasing f.name, stack := rest, rmw := clearRmw (s.thr t).rmw f.name })
      else some (setThr s t { s.thr t with stack := rest })
    | _, _ => none
  | .resetOwner t =>
    match (s.thr t).pc with
    | .releasing a =>
      some (setThr (setMtx s a { s.mtx a with owner := 0 }) t { s.thr t with pc := .unlocking a })
    | _ => none
  | .unlock t =>
    match (s.thr t).pc with
    | .unlocking a =>
      some (setThr (setMtx s a { s.mtx a with locked := false, holder := none }) t
        { s.thr t with pc := .run })
    | _ => none
  | .read t a =>
    if (s.thr t).pc = .run ∧ inBlock (s.thr t).stack a = true then
      some (setThr s t { s.thr t with rmw := some (a, (s.mtx a).ctr) })
    else none
  | .write t =>
    match (s.thr t).pc, (s.thr t).rmw with
    | .run, some (a, v) =>
      some (setThr (setMtx s a { s.mtx a with ctr := v + 1, incs := (s.mtx a).incs + 1 }) t
        { s.thr t with rmw := none })
    | _, _ => none

/-- run a list of events; `none` as soon as one is not enabled -/
def run (s : State) : List Event → Option State
  | [] => some s
  | e :: es => match step s e with
    | some s' => run s' es
    | none => none

/-- states reachable from `init` -/
inductive Reach : State → Prop
  | init : Reach init
  | step {s s' e} : Reach s → step s e = some s' → Reach s'

theorem Reach.run {s s' : State} {es : List Event} (h : Reach s) (hr : run s es = some s') : Reach s' := by
  induction es generalizing s with
  | nil => simp [Mutex.run] at hr; exact hr ▸ h
  | cons e es ih =>
    simp only [Mutex.run] at hr
    split at hr
    · rename_i s1 h1; exact ih (Reach.step h h1) hr
    · cases hr

/-! ## Invariant -/

def pcHolds : Pc → Nat → Bool
  | .lockedNoOwner b, a => b == a
  | .releasing b, a => b == a
  | .unlocking b, a => b == a
  | _, _ => false

def pcOwner : Pc → Nat → Bool
  | .releasing b, a => b == a
  | _, _ => false

/-- the thread holds the `sync.Mutex` of name `a` (by its position in the protocol) -/
def Thread.holds (th : Thread) (a : Nat) : Bool := pcHolds th.pc a || hasAcq th.stack a

/-- the thread is the registered owner of name `a` (by its position in the protocol) -/
def Thread.ownerReg (th : Thread) (a : Nat) : Bool := pcOwner th.pc a || hasAcq th.stack a

/-- per name at most one acquired frame, at the bottom of the frames of that name -/
def stackWf : List Frame → Bool
  | [] => true
  | f :: r => (if f.acquired then !hasAcq r f.name else hasAcq r f.name) && stackWf r

def pcWf (x : Nat) (st : List Frame) : Pc → Prop
  | .run => True
  | .decide a o => (o = x ↔ hasAcq st a = true)
  | .wantLock a => hasAcq st a = false
  | .lockedNoOwner a => hasAcq st a = false
  | .releasing a => hasAcq st a = false
  | .unlocking a => hasAcq st a = false

structure ThreadWf (x : Nat) (th : Thread) : Prop where
  st : stackWf th.stack = true
  pc : pcWf x th.stack th.pc
  rmw : ∀ a v, th.rmw = some (a, v) → hasAcq th.stack a = true

structure Inv (s : State) : Prop where
  hold : ∀ a x, (s.thr x).holds a = true ↔ (s.mtx a).holder = some x
  lock : ∀ a, (s.mtx a).locked = true ↔ (s.mtx a).holder ≠ none
  own : ∀ a x, (s.thr x).ownerReg a = true ↔ ((s.mtx a).owner = x ∧ x ≠ 0)
  zero : s.thr 0 = idle
  wf : ∀ x, ThreadWf x (s.thr x)
  ctr : ∀ a, (s.mtx a).ctr = (s.mtx a).incs
  rmwv : ∀ x a v, (s.thr x).rmw = some (a, v) → v = (s.mtx a).ctr

/-! ## The release policy and the order of the protocol steps as parameters

`step` is the code as it is. The two definitions below are *variant protocols*: what the same
code would do with the release not deferred, or with two protocol steps swapped. They exist for
the negative witnesses in `Ecal.Props.C12` (the properties fail for them), i.e. to show which
facts about the source the theorems depend on. -/

/-- `deferred = true`: the release is a deferred call — it runs whatever the outcome of the body
    is, a Go panic included (`stepD true = step`). `deferred = false`: the release is written
    after the body — it runs only when the body ends normally; on every other outcome `Eval` is
    left with the frame gone and nothing released. -/
def stepD (deferred : Bool) (s : State) (e : Event) : Option State :=
  match e with
  | .bodyEnd t k =>
    if deferred = true ∨ k = .normal then step s e
    else
      match (s.thr t).pc, (s.thr t).stack with
      | .run, _ :: rest => some (setThr s t { s.thr t with stack := rest })
      | _, _ => none
  | e => step s e

theorem stepD_true (s : State) (e : Event) : stepD true s e = step s e := by
  cases e <;> simp [stepD]

inductive Variant where
  | unlockBeforeReset   -- deferred release: mutex.Unlock() first, MutexeOwners[name] = 0 afterwards
  | ownerBeforeLock     -- MutexeOwners[name] = tid before mutex.Lock()
  | lockInSection       -- mutex.Lock() inside the MutexesMutex section that read the owner

/-- In the variant `lockInSection` the table lock `MutexesMutex` is explicit: it is kept in the
    entry of this reserved name (no program uses it). -/
def tableLock : Nat := 1000000

def takeTable (s : State) (t : Nat) : State :=
  setMtx s tableLock { s.mtx tableLock with locked := true, holder := some t }
def dropTable (s : State) : State :=
  setMtx s tableLock { s.mtx tableLock with locked := false, holder := none }

def stepV (v : Variant) (s : State) (e : Event) : Option State :=
  match v, e with
  | .unlockBeforeReset, .unlock t =>
    match (s.thr t).pc with
    | .releasing a =>
      some (setThr (setMtx s a { s.mtx a with locked := false, holder := none }) t
        { s.thr t with pc := .unlocking a })
    | _ => none
  | .unlockBeforeReset, .resetOwner t =>
    match (s.thr t).pc with
    | .unlocking a => some (setThr (setMtx s a { s.mtx a with owner := 0 }) t { s.thr t with pc := .run })
    | _ => none
  | .ownerBeforeLock, .setOwner t =>
    match (s.thr t).pc with
    | .wantLock a => some (setMtx s a { s.mtx a with owner := t })
    | _ => step s (.setOwner t)
  -- lockInSection: the section opened by `look` stays open until the thread has the named mutex
  -- and has registered (or has found itself to be the owner); the release needs the table lock
  | .lockInSection, .look t a =>
    if (s.mtx tableLock).locked = false then (step s (.look t a)).map (takeTable · t) else none
  | .lockInSection, .decide t =>
    (step s (.decide t)).map fun s' => if (s'.thr t).pc = .run then dropTable s' else s'
  | .lockInSection, .setOwner t => (step s (.setOwner t)).map dropTable
  | .lockInSection, .resetOwner t =>
    if (s.mtx tableLock).locked = false then step s (.resetOwner t) else none
  | _, e => step s e

def runWith (f : State → Event → Option State) (s : State) : List Event → Option State
  | [] => some s
  | e :: es => match f s e with
    | some s' => runWith f s' es
    | none => none

end Ecal.Mutex
