/-!
Expression-level model used by the theorems of C08 (core Lean only).

* `Expr`  — operator trees: opaque atoms, infix operators `bin k`, prefix operators `pre k`
  (`k` indexes the operator tables; binding powers are parameters `bp`, `pb`).
* `Run`/`Loop` — the Pratt parser of parser.go (`run`, `ndPrefix`, `ldInfix`, `ndInner`) as a
  relation in continuation form; `run`/`loop` — the same parser as fuel-indexed functions.
  A prefix operator parses its operand with right binding `pb k + off` (`ndPrefix`: `self.binding + 20`).
* `pr` — the minimal unparser (parenthesises only where the parser would otherwise build another tree).
* `nb`/`annot`/`flat` — the printer of prettyprinter.go restricted to operator trees: children first,
  a child is wrapped in parentheses iff `ppNeedsBrackets(parent, child, index)`; `nb` is that rule on
  the heads of parent and child (a `return` with a value is always wrapped under an operator and never
  wraps its own operand).

This is NOT the full printer model (`Ecal.Print` in Printer.lean, which produces the text including
templates, indentation and comments). The driver compares the two on every pure operator expression.
-/
namespace Ecal.C08

inductive Tok where
  | atom (n : Nat) | op (k : Nat) | pre (k : Nat) | lp | rp
  deriving DecidableEq, Repr

inductive Expr where
  | atom (n : Nat)
  | bin (k : Nat) (l r : Expr)
  | pre (k : Nat) (x : Expr)
  deriving DecidableEq, Repr

/-- an operator tree with the parentheses the printer decided to write -/
inductive PExpr where
  | atom (n : Nat)
  | bin (k : Nat) (l r : PExpr)
  | pre (k : Nat) (x : PExpr)
  | paren (x : PExpr)
  deriving DecidableEq, Repr

/-- binding powers: `bp k` of the infix operator `k`, `pb k` of the prefix operator node `k`,
    `off` the amount `ndPrefix` adds for its operand; `stmt k` marks a statement-like prefix keyword
    (`return` with a value, `ndReturn`): its operand is parsed with right binding 0, i.e. it takes
    everything that follows -/
structure Powers where
  bp : Nat → Nat
  pb : Nat → Nat
  off : Nat
  stmt : Nat → Bool := fun _ => false

namespace Powers
/-- right binding with which a prefix operator parses its operand -/
def pbp (P : Powers) (k : Nat) : Nat := if P.stmt k then 0 else P.pb k + P.off
end Powers

def lbp (P : Powers) : List Tok → Nat
  | Tok.op k :: _ => P.bp k
  | _ => 0

mutual
/-- `Run m ts e rest`: `p.run(m)` on the tokens `ts` returns `e` and leaves `rest` -/
inductive Run (P : Powers) : Nat → List Tok → Expr → List Tok → Prop
  | atom {m n ts e rest} : Loop P m (Expr.atom n) ts e rest → Run P m (Tok.atom n :: ts) e rest
  | paren {m ts e1 ts' e rest} : Run P 0 ts e1 (Tok.rp :: ts') → Loop P m e1 ts' e rest →
      Run P m (Tok.lp :: ts) e rest
  | pre {m k ts x ts' e rest} : Run P (P.pbp k) ts x ts' → Loop P m (Expr.pre k x) ts' e rest →
      Run P m (Tok.pre k :: ts) e rest
/-- the loop `for rightBinding < p.node.binding` collecting left denotations -/
inductive Loop (P : Powers) : Nat → Expr → List Tok → Expr → List Tok → Prop
  | stop {m left ts} : ¬ (m < lbp P ts) → Loop P m left ts left ts
  | op {m k left ts r ts' e rest} : m < P.bp k → Run P (P.bp k) ts r ts' →
      Loop P m (Expr.bin k left r) ts' e rest → Loop P m left (Tok.op k :: ts) e rest
end

mutual
/-- executable parser, fuel-indexed -/
def run (P : Powers) : Nat → Nat → List Tok → Option (Expr × List Tok)
  | 0, _, _ => none
  | _+1, _, [] => none
  | fuel+1, m, Tok.atom n :: ts => loop P fuel m (Expr.atom n) ts
  | fuel+1, m, Tok.lp :: ts =>
    match run P fuel 0 ts with
    | some (e1, Tok.rp :: ts') => loop P fuel m e1 ts'
    | _ => none
  | fuel+1, m, Tok.pre k :: ts =>
    match run P fuel (P.pbp k) ts with
    | some (x, ts') => loop P fuel m (Expr.pre k x) ts'
    | none => none
  | _+1, _, Tok.op _ :: _ => none
  | _+1, _, Tok.rp :: _ => none
def loop (P : Powers) : Nat → Nat → Expr → List Tok → Option (Expr × List Tok)
  | 0, _, _, _ => none
  | fuel+1, m, left, Tok.op k :: ts =>
    if m < P.bp k then
      match run P fuel (P.bp k) ts with
      | some (r, ts') => loop P fuel m (Expr.bin k left r) ts'
      | none => none
    else some (left, Tok.op k :: ts)
  | _+1, _, left, ts => some (left, ts)
end

/-- minimal unparser: print `e` where operators with binding ≤ m would be captured by the context
    and whatever follows has binding ≤ f -/
def pr (P : Powers) : Expr → Nat → Nat → List Tok
  | Expr.atom n, _, _ => [Tok.atom n]
  | Expr.bin k l r, m, f =>
    if m < P.bp k then pr P l (P.bp k - 1) (P.bp k) ++ (Tok.op k :: pr P r (P.bp k) f)
    else Tok.lp :: (pr P l (P.bp k - 1) (P.bp k) ++ (Tok.op k :: pr P r (P.bp k) 0)) ++ [Tok.rp]
  | Expr.pre k x, _, f =>
    if f ≤ P.pbp k then Tok.pre k :: pr P x (P.pbp k) f
    else Tok.lp :: (Tok.pre k :: pr P x (P.pbp k) 0) ++ [Tok.rp]

namespace PExpr
def strip : PExpr → Expr
  | atom n => Expr.atom n
  | bin k l r => Expr.bin k l.strip r.strip
  | pre k x => Expr.pre k x.strip
  | paren x => x.strip
def flat : PExpr → List Tok
  | atom n => [Tok.atom n]
  | bin k l r => l.flat ++ (Tok.op k :: r.flat)
  | pre k x => Tok.pre k :: x.flat
  | paren x => Tok.lp :: (x.flat ++ [Tok.rp])
end PExpr

/-- what `ppNeedsBrackets` looks at -/
inductive Head where
  | atom | bin (k : Nat) | pre (k : Nat)
  deriving DecidableEq, Repr

def Expr.head : Expr → Head
  | .atom _ => .atom
  | .bin k _ _ => .bin k
  | .pre k _ => .pre k

/-- the bracket rule of the printer (`ppNeedsBrackets`) on operator heads; `exc K k` is its
    exception ("brackets around k under K are regarded as needless"), which applies only if the child's
    chain is `pure` (ppIsProductChain) -/
def nb (P : Powers) (exc : Nat → Nat → Bool) : Head → Head → Nat → Bool → Bool
  | _, .atom, _, _ => false
  | .atom, _, _, _ => false
  | .pre K, .bin k, _, _ => if P.stmt K then false else decide (P.bp k ≤ P.pb K + P.off)
  | .pre K, .pre k, _, _ => if P.stmt K then false else if P.stmt k then true else decide (P.pb k ≤ P.pb K + P.off)
  | .bin K, .pre k, _, _ => if P.stmt k then true else decide (P.bp K > P.pb k + P.off)
  | .bin K, .bin k, idx, pure =>
    if exc K k && pure then false else decide (P.bp K > P.bp k) || (decide (P.bp K = P.bp k) && decide (idx > 0))

/-- ppIsProductChain: the operators of binding `b` on the left spine of `e` (printed without brackets) all
    fall under the exception of parent `K` (are products or quotients) -/
def chainPure (P : Powers) (exc : Nat → Nat → Bool) (K b : Nat) : Expr → Bool
  | .bin k l _ => if P.bp k = b then exc K k && chainPure P exc K b l else true
  | _ => true

def wrap (b : Bool) (p : PExpr) : PExpr := if b then PExpr.paren p else p

/-- where parentheses are NECESSARY for the Pratt parser to rebuild the tree (the weakest sufficient local rule):
    an operand must bind tighter than the right binding in force, a prefix operator must not capture what follows -/
def need (P : Powers) : Head → Head → Nat → Bool
  | _, .atom, _ => false
  | .atom, _, _ => false
  | .pre K, .bin k, _ => decide (P.bp k ≤ P.pbp K)
  | .pre K, .pre k, _ => decide (P.pbp K > P.pbp k)
  | .bin K, .pre k, _ => decide (P.bp K > P.pbp k)
  | .bin K, .bin k, idx => decide (P.bp K > P.bp k) || (decide (P.bp K = P.bp k) && decide (idx > 0))

/-- every operator head of the tree satisfies `ok` (e.g. belongs to the real table) -/
def headsIn (ok : Head → Bool) : Expr → Bool
  | .atom _ => true
  | .bin k l r => ok (.bin k) && headsIn ok l && headsIn ok r
  | .pre k x => ok (.pre k) && headsIn ok x

/-- a bracket rule `br` SUFFICES on the heads satisfying `ok`: it parenthesises wherever that is necessary —
    except at the known exception (a right operand `k` under `K` with `exc K k` and a pure chain: finding
    mul-right-brackets). More parentheses than necessary are allowed. (Child index 0 or 1: operator trees.) -/
def Suff (P : Powers) (exc : Nat → Nat → Bool) (br : Head → Head → Nat → Bool → Bool) (ok : Head → Bool) : Prop :=
  ∀ (p c : Head) (i : Nat) (pure : Bool), ok p = true → ok c = true → i < 2 → need P p c i = true →
    br p c i pure = true ∨ (∃ K k, p = .bin K ∧ c = .bin k ∧ i > 0 ∧ exc K k = true ∧ pure = true)

/-- the printer on operator trees with an arbitrary local bracket rule: children first, parentheses by `br` -/
def annotW (P : Powers) (exc : Nat → Nat → Bool) (br : Head → Head → Nat → Bool → Bool) : Expr → PExpr
  | .atom n => .atom n
  | .bin k l r =>
    .bin k (wrap (br (.bin k) l.head 0 (chainPure P exc k (P.bp k) l)) (annotW P exc br l))
      (wrap (br (.bin k) r.head 1 (chainPure P exc k (P.bp k) r)) (annotW P exc br r))
  | .pre k x => .pre k (wrap (br (.pre k) x.head 0 true) (annotW P exc br x))

/-- the printer with the hand-written rule `nb` -/
def annot (P : Powers) (exc : Nat → Nat → Bool) : Expr → PExpr
  | .atom n => .atom n
  | .bin k l r =>
    .bin k (wrap (nb P exc (.bin k) l.head 0 (chainPure P exc k (P.bp k) l)) (annot P exc l))
      (wrap (nb P exc (.bin k) r.head 1 (chainPure P exc k (P.bp k) r)) (annot P exc r))
  | .pre k x => .pre k (wrap (nb P exc (.pre k) x.head 0 true) (annot P exc x))

/-- printed token list of the printer -/
def printToks (P : Powers) (exc : Nat → Nat → Bool) (e : Expr) : List Tok := (annot P exc e).flat

/-- a right operand `k` under `K` for which the exception applies (pure chain) occurs somewhere in the tree -/
def hasExc (P : Powers) (exc : Nat → Nat → Bool) : Expr → Bool
  | .atom _ => false
  | .bin K l r => hasExc P exc l || hasExc P exc r ||
      (match r.head with | .bin k => exc K k && chainPure P exc K (P.bp K) r | _ => false)
  | .pre _ x => hasExc P exc x

/-- the parentheses are admissible in context (m, f): `m` = right binding of the enclosing run,
    `f` = bound on the binding of the operator that follows -/
def Ok (P : Powers) : PExpr → Nat → Nat → Prop
  | .atom _, _, _ => True
  | .bin k l r, m, f => m < P.bp k ∧ f ≤ P.bp k ∧ Ok P l (P.bp k - 1) (P.bp k) ∧ Ok P r (P.bp k) f
  | .pre k x, _, f => f ≤ P.pbp k ∧ Ok P x (P.pbp k) f
  | .paren x, _, _ => Ok P x 0 0

end Ecal.C08
