import Ecal.Model.Interp
/-!
# Index-level model of the interpolation loop as it is in /repo (`stringValueRuntime.Eval`, after 8e2f91b)

`Ecal.Interp.interp` is the *specification-shaped* model (a fold over the segmentation of the literal).
This file follows the Go code operation by operation instead:

```go
var buf strings.Builder
rest := ret
for {
    code, ok := rt.GetInfix(rest, "{{", "}}")      // strings.Index twice, two slice expressions
    if !ok { break }
    start := strings.Index(rest, "{{")
    … replace = evaluation of code …               // arbitrary, STATEFUL: scope, side effects
    buf.WriteString(rest[:start])                  // slice expression
    buf.WriteString(replace)
    rest = rest[start+len("{{")+len(code)+len("}}"):]   // slice expression
}
buf.WriteString(rest)
```

* every slice expression is the partial operation it is in Go (`none` = "slice bounds out of range", a
  panic); `strings.Index` returns `none` for -1 and a slice bound computed from -1 panics;
* the `for` loop is fuel-indexed: running out of fuel is its own outcome, NOT success;
* the evaluation of an embedded expression is `ev : σ → Str → Str × σ` — it sees and changes a state σ
  (the scopes, the side effects), nothing is assumed about it.

`Ecal.Props.C14.impl_refines_spec` proves that this loop, started with the fuel `|literal|/4 + 1`, never
panics, never runs out of fuel and returns exactly the fold over the segmentation (`interpS`).
-/
namespace Ecal.InterpImpl
open Ecal.Interp

/-- outcome of the Go loop -/
inductive Out (σ : Type) where
  | ok (s : Str) (st : σ)
  | panic            -- Go: slice bounds out of range
  | outOfFuel
  deriving Repr, DecidableEq

/-- `strings.Index(s, mm)` for the two-byte marker `m m`; `none` = -1 -/
def index2 (m : Nat) : Str → Option Nat
  | [] => none
  | [_] => none
  | a :: b :: rest => if a = m ∧ b = m then some 0 else (index2 m (b :: rest)).map (· + 1)

/-- `s[:hi]` -/
def sliceTo (s : Str) (hi : Nat) : Option Str := if hi ≤ s.length then some (s.take hi) else none
/-- `s[lo:]` -/
def sliceFrom (s : Str) (lo : Nat) : Option Str := if lo ≤ s.length then some (s.drop lo) else none
/-- `s[lo:hi]` -/
def slice (s : Str) (lo hi : Nat) : Option Str :=
  if lo ≤ hi ∧ hi ≤ s.length then some ((s.drop lo).take (hi - lo)) else none

/-- `GetInfix(str, "{{", "}}")`: `none` = panic, `some none` = `ok == false`, `some (some code)` -/
def getInfix (str : Str) : Option (Option Str) :=
  match index2 123 str with
  | none => some none
  | some s0 =>
    let s := s0 + 2                                  -- s += len(start)
    match sliceFrom str s with                       -- str[s:]
    | none => none
    | some tail =>
      match index2 125 tail with
      | none => some none
      | some e => (slice str s (s + e)).map some     -- str[s : s+e]

/-- the `for` loop: `buf` is the builder, `rest` the unscanned remainder -/
def loop {σ : Type} (ev : σ → Str → Str × σ) : Nat → σ → Str → Str → Out σ
  | 0, _, _, _ => Out.outOfFuel
  | fuel + 1, st, buf, rest =>
    match getInfix rest with
    | none => Out.panic
    | some none => Out.ok (buf ++ rest) st            -- break; buf.WriteString(rest)
    | some (some code) =>
      match index2 123 rest with
      | none => Out.panic                             -- rest[:-1]
      | some start =>
        let r := ev st code                           -- the evaluation happens before the two writes
        match sliceTo rest start, sliceFrom rest (start + 2 + code.length + 2) with
        | some pre, some rest' => loop ev fuel r.2 (buf ++ pre ++ r.1) rest'
        | _, _ => Out.panic

/-- `stringValueRuntime.Eval` on an interpolating literal: the loop needs at most one iteration per four
    bytes (`{{` `}}`), plus the final one that finds nothing -/
def impl {σ : Type} (ev : σ → Str → Str × σ) (st : σ) (s : Str) : Out σ :=
  loop ev (s.length / 4 + 1) st [] s

/-- the specification with a stateful evaluator: a left-to-right fold over the literal's segmentation -/
def stepS {σ : Type} (ev : σ → Str → Str × σ) (acc : Str × σ) : Seg → Str × σ
  | Seg.text t => (acc.1 ++ t, acc.2)
  | Seg.code c => ((acc.1 ++ (ev acc.2 c).1), (ev acc.2 c).2)

def interpS {σ : Type} (ev : σ → Str → Str × σ) (st : σ) (s : Str) : Str × σ :=
  (segments s).foldl (stepS ev) ([], st)

/-- an evaluator instrumented with the log of the expressions it was asked to evaluate -/
def logged {σ : Type} (ev : σ → Str → Str × σ) (st : σ × List Str) (c : Str) : Str × (σ × List Str) :=
  ((ev st.1 c).1, ((ev st.1 c).2, st.2 ++ [c]))

end Ecal.InterpImpl

namespace Ecal.InterpImpl
open Ecal.Interp

/-- the outcome of evaluating ONE embedded expression: the text of its value, or the message of the error that
    parsing / validating / evaluating it produced -/
inductive EvOut where
  | val (text : Str)
  | err (msg : Str)
  deriving Repr, DecidableEq

/-- what is put in the expression's place: the value's text, or the error message behind the marker (`#`) -/
def render (marker : Str) : EvOut → Str
  | EvOut.val t => t
  | EvOut.err m => marker ++ m

/-- `stringValueRuntime.Eval` on a string token (value `val`, flag `allowEscapes` set by the lexer): a raw
    literal is returned untouched, an interpolating one goes through the loop with the rendered outcomes -/
def evalNode {σ : Type} (marker : Str) (ev : σ → Str → EvOut × σ) (st : σ) (allowEscapes : Bool) (val : Str) : Out σ :=
  if allowEscapes then impl (fun s c => (render marker (ev s c).1, (ev s c).2)) st val else Out.ok val st

end Ecal.InterpImpl
