/-!
# Model of the ECAL debugger (`interpreter/debug.go`) — property C15

Two parts.

**(a) The visit decision functions** `visitState`, `stepInState`, `stepOutState`
(Go: `VisitState`, `VisitStepInState`, `VisitStepOutState`) of ONE thread, over the
data these Go functions read and write: the thread's interrogation state (pending
command, line of the node it last stopped on, length of the step-out target stack,
error flag, running flag), the call depth (`len(callStacks[tid])`), the break point
map (`"<source>:<line>" ↦ active`), `breakOnStart`, `breakOnError`.
They are applied along an *abstract visit trace* (`Ev`: node visits with their
source line, function call enter / exit), so no evaluator is needed. Where the Go
code waits (`waitForContinue`) the model records the line (`Run.susp`: the thread is
*reported suspended* there) and lets the controller answer with the next entry of a
script (`Act`: break point edits, then `Continue(tid, cmd)` or `StopThreads`).
None of these functions has a parameter for the program's scope, heap or log
(`observer_only` in `Props/C15`).

**(b) The suspend / continue handshake** (`Hs`): a transition system of one thread
and its controller following the CURRENT code (`waitForContinue`: `for !running
{ cond.Wait() }` under the condition's lock; `setRunning`: `running = true;
Broadcast()` under that lock), and `Hs.Pristine`, the code before fix a44f74f
(`running = false` … `Lock; Wait` without a predicate; `running = true` outside the
lock), which loses a `Continue`.
-/
namespace Ecal.Debug

/-- `interrogationCmd` -/
inductive Cmd where
  | stop | stepIn | stepOut | stepOver | resume | kill
  deriving DecidableEq, Repr, Inhabited

/-- `util.ContType`: what `Continue` accepts -/
inductive Cont where
  | resume | stepIn | stepOver | stepOut
  deriving DecidableEq, Repr, Inhabited

def Cont.toCmd : Cont → Cmd
  | .resume => .resume
  | .stepIn => .stepIn
  | .stepOver => .stepOver
  | .stepOut => .stepOut

/-- a source position as far as the debugger looks at it (`Token.Lsource`, `Token.Lline`) -/
structure Loc where
  src : Nat
  line : Nat
  deriving DecidableEq, Repr, Inhabited

/-- `interrogationState` (without condition variable, node identity and scope) -/
structure IState where
  cmd : Cmd
  /-- position of `is.node`: `Token.Lsource` and `Token.Lline` (both are compared: a node on the same
  line NUMBER of another source is on a different line) -/
  pos : Loc
  /-- `len(is.stepOutStack)` — the only thing the code reads from that stack -/
  soDepth : Nat
  /-- `is.err != nil` -/
  err : Bool
  running : Bool
  deriving DecidableEq, Repr, Inhabited

/-- the part of `ecalDebugger` one thread's visits read and write -/
structure Dbg where
  is : Option IState
  /-- `len(callStacks[tid])` -/
  depth : Nat
  /-- `breakPoints`: key ↦ active -/
  bps : List (Loc × Bool)
  breakOnStart : Bool
  breakOnError : Bool
  deriving DecidableEq, Repr, Inhabited

/-! ### break points -/

def bpLookup (bps : List (Loc × Bool)) (l : Loc) : Option Bool :=
  (bps.find? (fun p => p.1 = l)).map (·.2)

/-- `active, ok := ed.breakPoints[key]; ok && active` -/
def bpActive (bps : List (Loc × Bool)) (l : Loc) : Bool :=
  match bpLookup bps l with
  | some a => a
  | none => false

def bpPut (bps : List (Loc × Bool)) (l : Loc) (a : Bool) : List (Loc × Bool) :=
  (l, a) :: bps.filter (fun p => p.1 ≠ l)

inductive BpOp where
  /-- `SetBreakPoint` -/
  | set (l : Loc)
  /-- `DisableBreakPoint` -/
  | disable (l : Loc)
  /-- `RemoveBreakPoint` (line ≤ 0: every break point of the source) -/
  | remove (l : Loc)
  /-- `BreakOnStart` -/
  | breakOnStart (b : Bool)
  deriving DecidableEq, Repr

def applyOp (d : Dbg) : BpOp → Dbg
  | .set l => { d with bps := bpPut d.bps l true }
  | .disable l => { d with bps := bpPut d.bps l false }
  | .remove l =>
    if l.line > 0 then { d with bps := d.bps.filter (fun p => p.1 ≠ l) }
    else { d with bps := d.bps.filter (fun p => p.1.src ≠ l.src) }
  | .breakOnStart b => { d with breakOnStart := b }

/-! ### the controller's side -/

/-- `Continue(tid, c)`: only acts on a thread reported suspended -/
def applyCont (d : Dbg) (c : Cont) : Dbg :=
  match d.is with
  | none => d
  | some is =>
    if is.running then d
    else
      let so := match c with
        | .stepOut => if d.depth > 0 then d.depth - 1 else is.soDepth
        | _ => is.soDepth
      { d with is := some { is with cmd := c.toCmd, soDepth := so, running := true } }

/-- `StopThreads` as far as this thread is concerned -/
def applyKill (d : Dbg) : Dbg :=
  match d.is with
  | none => d
  | some is => if is.running then d else { d with is := some { is with cmd := .kill, running := true } }

/-- what the controller does when it sees the thread suspended -/
structure Act where
  ops : List BpOp
  /-- `none`: `StopThreads` -/
  cmd : Option Cont
  deriving DecidableEq, Repr

def applyAct (d : Dbg) (a : Act) : Dbg :=
  let d := a.ops.foldl applyOp d
  match a.cmd with
  | some c => applyCont d c
  | none => applyKill d

/-- state of the run of one thread along its visit trace -/
structure Run where
  d : Dbg
  /-- answers of the controller still to come (exhausted: plain `resume`) -/
  script : List Act
  /-- positions at which the thread reported suspension, oldest first -/
  susp : List Loc
  /-- `runtime.Goexit()` was executed -/
  killed : Bool
  /-- Go would panic. No visit function sets it any more (`never_crashes`): the only case was
  `VisitStepOutState` with an empty call stack, now guarded. -/
  crashed : Bool
  deriving DecidableEq, Repr, Inhabited

/-- `waitForContinue` at position `l`: the thread is reported suspended, the controller answers -/
def park (r : Run) (l : Loc) : Run :=
  match r.script with
  | [] => { r with d := applyAct r.d ⟨[], some .resume⟩, susp := r.susp ++ [l] }
  | a :: rest => { r with d := applyAct r.d a, script := rest, susp := r.susp ++ [l] }

def freshState (l : Loc) : IState :=
  { cmd := .stop, pos := l, soDepth := 0, err := false, running := false }

/-- `VisitState`, branch "thread is not interrogated" -/
def visitFresh (r : Run) (l : Loc) : Run :=
  if bpActive r.d.bps l || r.d.breakOnStart then
    park { r with d := { r.d with is := some (freshState l), breakOnStart := false } } l
  else r

/-- `VisitState(node, vs, tid)` for a node with a token on position `l` -/
def visitState (r : Run) (l : Loc) : Run :=
  match r.d.is with
  | none => visitFresh r l
  | some is =>
    match is.cmd with
    | .resume =>
      if is.pos ≠ l then visitFresh { r with d := { r.d with is := none } } l else r
    | .kill =>
      if is.pos ≠ l then { r with d := { r.d with is := none }, killed := true } else r
    | .stepOut =>
      -- stepping over / out of a call: only an active break point on a NEW line stops the thread;
      -- `is.node` follows the thread so that "new line" means "other than the line just executed"
      if is.pos ≠ l then
        if bpActive r.d.bps l then
          park { r with d := { r.d with is := some { is with pos := l, running := false } } } l
        else { r with d := { r.d with is := some { is with pos := l } } }
      else r
    | _ => -- Stop, StepIn, StepOver
      if is.pos ≠ l ∨ is.cmd = Cmd.stop then
        park { r with d := { r.d with is := some { is with pos := l, running := false } } } l
      else r

/-- the `switch is.cmd` of `VisitStepInState` -/
def enterCmd (is : IState) (depth : Nat) : IState :=
  match is.cmd with
  | .stepIn => { is with cmd := .stop }
  | .stepOver => { is with cmd := .stepOut, soDepth := depth }
  | _ => is

/-- `VisitStepInState(node, vs, tid)`: before a function call written on position `l` -/
def stepInState (r : Run) (l : Loc) : Run :=
  let depth := r.d.depth
  let r1 := match r.d.is with
    | none => r
    | some is =>
      let r1 := if is.cmd = Cmd.stop then visitState r l else r
      { r1 with d := { r1.d with is := r1.d.is.map (enterCmd · depth) } }
  { r1 with d := { r1.d with depth := depth + 1 } }

/-- the `switch is.cmd` of `VisitStepOutState` -/
def exitCmd (is : IState) (depth : Nat) : IState :=
  if (is.cmd = Cmd.stepOver ∨ is.cmd = Cmd.stepOut) ∧ depth = is.soDepth then { is with cmd := .stop } else is

/-- `VisitStepOutState(node, vs, tid, soErr)`: after the call on position `l` returned (`err`: with an error) -/
def stepOutState (r : Run) (l : Loc) (err : Bool) : Run :=
  if r.d.depth = 0 then r   -- the debugger was attached while this call was running: nothing to pop
  else
    let depth := r.d.depth - 1
    let d := { r.d with depth := depth }
    if d.breakOnError && err then
      let (is, d) := match d.is with
        | none => (freshState l, { d with breakOnStart := false })
        | some is => (is, d)
      if is.err then
        -- an error is already recorded (it is only passing an outer call): no second stop, the thread is
        -- not marked as suspended and its position (`is.node`) is NOT moved to the outer call
        { r with d := { d with is := some is } }
      else
        park { r with d := { d with is := some { is with pos := l, err := true, running := false } } } l
    else
      match d.is with
      | none => { r with d := d }
      | some is => { r with d := { d with is := some (exitCmd { is with err := err } depth) } }

/-- `RecordThreadFinished(tid)`: whatever command is pending (resume, a step, kill) belongs to the
execution that has just finished; the thread's next execution starts without interrogation state -/
def threadFinished (d : Dbg) : Dbg := { d with is := none, depth := 0 }

/-- one element of the abstract visit trace of a thread -/
inductive Ev where
  /-- `baseRuntime.Eval` of a node with a token -/
  | visit (l : Loc)
  /-- `executeFunction` before `funcObj.Run` -/
  | enter (l : Loc)
  /-- `executeFunction` after `funcObj.Run` -/
  | exit (l : Loc) (err : Bool)
  | finished
  deriving DecidableEq, Repr

def stepEv (r : Run) (e : Ev) : Run :=
  if r.killed || r.crashed then r
  else match e with
    | .visit l => visitState r l
    | .enter l => stepInState r l
    | .exit l err => stepOutState r l err
    | .finished => { r with d := threadFinished r.d }

def runTrace (r : Run) (t : List Ev) : Run := t.foldl stepEv r

def Dbg.init (bos boe : Bool) : Dbg :=
  { is := none, depth := 0, bps := [], breakOnStart := bos, breakOnError := boe }

def Run.init (d : Dbg) (script : List Act) : Run :=
  { d := d, script := script, susp := [], killed := false, crashed := false }

/-! ## (b) the handshake -/
namespace Hs

/-- where the thread is inside `VisitState … waitForContinue` -/
inductive Pc where
  /-- executing ECAL code -/
  | run
  /-- `running = false` is published (the thread is reported suspended), `waitForContinue` not entered -/
  | marked
  /-- holds the condition's lock, about to test `running` -/
  | holding
  /-- inside `cond.Wait()` (lock released) -/
  | waiting
  /-- woken by a broadcast, has to re-acquire the lock -/
  | woken
  deriving DecidableEq, Repr, Inhabited

/-- where the controller is inside `Continue` / `StopThreads` for this thread -/
inductive CPc where
  | idle
  /-- passed the test `ok && !is.running`, about to write `is.cmd` -/
  | armed (c : Cmd)
  /-- `is.cmd` written, about to enter `setRunning` -/
  | locking
  deriving DecidableEq, Repr, Inhabited

structure State where
  pc : Pc
  running : Bool
  cmd : Cmd
  cpc : CPc
  deriving DecidableEq, Repr, Inhabited

inductive Event where
  /-- thread: `Lock; running = false; Unlock` (or publishing a fresh state with `running = false`) -/
  | mark
  /-- thread: `running = false` published WITHOUT waiting. The current code has no such step any more
  (fix "no suspended flag without wait"); the event stays in the system, so the handshake theorems
  hold for a superset of the code's behaviours. -/
  | phantom
  /-- thread: `cond.L.Lock()` at the head of `waitForContinue` -/
  | tlock
  /-- thread: `for !running { Wait }`: leaves (Unlock) or waits (releases the lock) -/
  | test
  /-- thread: re-acquires the lock after the broadcast -/
  | wake
  /-- controller: `if is, ok := …; ok && !is.running` -/
  | cCheck (c : Cmd)
  /-- controller: `is.cmd = c` -/
  | cSetCmd
  /-- controller: `setRunning` = `Lock; running = true; Broadcast; Unlock` (atomic: needs the lock) -/
  | cFire
  deriving DecidableEq, Repr

open Pc CPc Event

def isThreadEvent : Event → Bool
  | mark | phantom | tlock | test | wake => true
  | _ => false

/-- current code (after fix a44f74f). The condition's lock is held by the thread
exactly while `pc = holding`; the controller's critical section is one step. -/
def step (s : State) : Event → Option State
  | mark => if s.pc = run then some { s with pc := marked, running := false } else none
  | phantom => if s.pc = run then some { s with running := false } else none
  | tlock => if s.pc = marked then some { s with pc := holding } else none
  | test =>
    if s.pc = holding then (if s.running then some { s with pc := run } else some { s with pc := waiting })
    else none
  | wake => if s.pc = woken then some { s with pc := holding } else none
  | cCheck c => if s.cpc = idle ∧ s.running = false then some { s with cpc := armed c } else none
  | cSetCmd => match s.cpc with
    | armed c => some { s with cmd := c, cpc := locking }
    | _ => none
  | cFire =>
    if s.cpc = locking ∧ s.pc ≠ holding then
      some { s with running := true, cpc := idle, pc := if s.pc = waiting then woken else s.pc }
    else none

def init : State := { pc := run, running := true, cmd := .stop, cpc := idle }

def runEvents (s : State) (es : List Event) : Option State := es.foldlM step s

inductive Reachable : State → Prop where
  | init : Reachable init
  | step {s s' : State} (e : Event) : Reachable s → step s e = some s' → Reachable s'

/-- steps the thread still has to take until it executes ECAL code again -/
def threadMeasure (s : State) : Nat :=
  match s.pc with
  | run => 0
  | holding => 1
  | marked => 2
  | woken => 2
  | waiting => 3

/-- steps the controller still has to take to finish its `Continue` -/
def ctlMeasure (s : State) : Nat :=
  match s.cpc with
  | idle => 0
  | locking => 1
  | armed _ => 2

/-- the thread's own next step (its program is sequential: at most one is enabled) -/
def threadNext (s : State) : Option Event :=
  match s.pc with
  | run => none
  | marked => some tlock
  | holding => some test
  | woken => some wake
  | waiting => none

/-- `StopThreads` on one thread: a thread reported suspended gets `Kill` and `setRunning`
(the controller blocks on the lock while the thread holds it, i.e. until the thread's `test`) -/
def stopOne (s : State) : State :=
  if s.running then s
  else
    let s := if s.pc = holding then { s with pc := waiting } else s
    { s with cmd := .kill, running := true, pc := if s.pc = waiting then woken else s.pc }

/-- run the thread alone until it has no step left (at most 3 steps are ever needed) -/
def threadRun (s : State) : State :=
  let go := fun (s : State) => match threadNext s with
    | some e => (step s e).getD s
    | none => s
  go (go (go s))

/-! the code before fix a44f74f -/
namespace Pristine

inductive PEvent where
  /-- thread: `is.running = false` -/
  | mark
  /-- thread: `Lock; Wait` (no predicate) -/
  | wait
  /-- thread: returns from `Wait`, `Unlock` -/
  | wake
  | cCheck (c : Cmd)
  | cSetCmd
  /-- controller: `is.running = true` (not under the lock) -/
  | cSetRunning
  /-- controller: `Lock; Broadcast; Unlock` -/
  | cBroadcast
  deriving DecidableEq, Repr

/-- controller position of the old code -/
inductive PCPc where
  | idle | armed (c : Cmd) | setting | broadcasting
  deriving DecidableEq, Repr

structure PState where
  pc : Pc
  running : Bool
  cmd : Cmd
  cpc : PCPc
  deriving DecidableEq, Repr

def step (s : PState) : PEvent → Option PState
  | .mark => if s.pc = Pc.run then some { s with pc := Pc.marked, running := false } else none
  | .wait => if s.pc = Pc.marked then some { s with pc := Pc.waiting } else none
  | .wake => if s.pc = Pc.woken then some { s with pc := Pc.run } else none
  | .cCheck c => if s.cpc = .idle ∧ s.running = false then some { s with cpc := .armed c } else none
  | .cSetCmd => match s.cpc with
    | .armed c => some { s with cmd := c, cpc := .setting }
    | _ => none
  | .cSetRunning => if s.cpc = .setting then some { s with running := true, cpc := .broadcasting } else none
  | .cBroadcast =>
    if s.cpc = .broadcasting then
      some { s with cpc := .idle, pc := if s.pc = Pc.waiting then Pc.woken else s.pc }
    else none

def init : PState := { pc := Pc.run, running := true, cmd := .stop, cpc := .idle }

end Pristine
end Hs
end Ecal.Debug
