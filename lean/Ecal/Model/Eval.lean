import Ecal.Model.Parser
/-!
Prototype model of the interpreter core (pinned commit, unrepaired): values, scope tree with
named child reuse and dotted access paths, operators, statements, user functions, try, a few
builtins.  `Sig.panic` = Go runtime panic, `Sig.unsupported` = outside this prototype.
-/
namespace Ecal.Ev
open Ecal.Lex Ecal.Parse

inductive Val where
  | null | bool (b : Bool) | num (f : Float) | str (s : List Nat)
  | list (ref : Nat) | map (ref : Nat) | func (id : Nat) | builtin (name : String)
  deriving Inhabited

structure RtErr where
  type : String
  line : Nat
  pos  : Int
  deriving Repr, Inhabited

inductive Sig where
  | err (e : RtErr) (data : Val)      -- RuntimeError / RuntimeErrorWithDetail
  | plainErr (msg : String)           -- a non-runtime Go error (fmt.Errorf) travelling up unwrapped
  | ret (e : RtErr) (v : Val)         -- returnValue
  | iter (fromV toV step cur : Float) (first : Bool)   -- ErrIsIterator from range()
  | panic | fuel | unsupported (why : String)
  deriving Inhabited

structure Scope where
  name : String
  parent : Option Nat
  children : List Nat
  vars : List (String × Val)
  deriving Inhabited

structure FuncRec where
  name : String
  decl : Node
  declScope : Nat
  deriving Inhabited

structure St where
  lists : Array (List Val) := #[]
  maps : Array (List (Val × Val)) := #[]
  scopes : Array Scope := #[]
  funcs : Array FuncRec := #[]
  log : Array (List Nat) := #[]

abbrev M := ExceptT Sig (StateM St)

/-- run `m`, turning its signal into a value; state changes made before it stay -/
def attemptE {α : Type} (m : M α) : M (Except Sig α) :=
  ExceptT.mk (do let r ← m.run; pure (Except.ok r))

def tokOf (n : Node) : M Tok := match n.tok with | some t => pure t | none => throw Sig.panic
def child (n : Node) (i : Nat) : M Node :=
  match n.children[i]? with
  | some (some c) => pure c
  | _ => throw Sig.panic        -- index out of range or nil child

def rtErr (type : String) (n : Node) : Sig :=
  match n.tok with
  | some t => Sig.err ⟨type, t.line, t.col⟩ Val.null
  | none => Sig.err ⟨type, 0, 0⟩ Val.null

/-! ### values -/
def isIntegral (f : Float) : Bool := f.floor == f && f.abs < 1e21
def natToDec (n : Nat) : List Nat := (toString n).toUTF8.toList.map (·.toNat)
/-- fmt.Sprint for the values this prototype supports -/
def sprint (v : Val) : M (List Nat) :=
  match v with
  | .null => pure (str "<nil>")
  | .bool true => pure (str "true") | .bool false => pure (str "false")
  | .str s => pure s
  | .num f =>
    if isIntegral f then
      let neg := f < 0 || (f == 0 && (1 / f) < 0)
      pure ((if neg then [45] else []) ++ natToDec f.abs.toUInt64.toNat)
    else throw (Sig.unsupported "float formatting")
  | _ => throw (Sig.unsupported "container formatting")

/-- Go `==` on interface values -/
def goEq (a b : Val) : M Bool :=
  match a, b with
  | .null, .null => pure true
  | .bool x, .bool y => pure (x == y)
  | .num x, .num y => pure (x == y)
  | .str x, .str y => pure (x == y)
  | .list _, .list _ => throw Sig.panic
  | .map _, .map _ => throw Sig.panic
  | .func x, .func y => pure (x == y)
  | .builtin x, .builtin y => pure (x == y)
  | _, _ => pure false

def hashable : Val → Bool
  | .list _ => false | .map _ => false | _ => true

def newList (vs : List Val) : M Val := do
  let s ← get; set { s with lists := s.lists.push vs }; pure (.list s.lists.size)
def newMap (kvs : List (Val × Val)) : M Val := do
  let s ← get; set { s with maps := s.maps.push kvs }; pure (.map s.maps.size)
def getList (r : Nat) : M (List Val) := do return (← get).lists.getD r []
def getMap (r : Nat) : M (List (Val × Val)) := do return (← get).maps.getD r []

def keyEq (a b : Val) : Bool :=
  match a, b with
  | .null, .null => true | .bool x, .bool y => x == y | .num x, .num y => x == y
  | .str x, .str y => x == y | .func x, .func y => x == y | .builtin x, .builtin y => x == y | _, _ => false
def mapLookup (kvs : List (Val × Val)) (k : Val) : Option Val := (kvs.find? fun p => keyEq p.1 k).map (·.2)
def mapStore (kvs : List (Val × Val)) (k v : Val) : List (Val × Val) :=
  if (mapLookup kvs k).isSome then kvs.map fun p => if keyEq p.1 k then (k, v) else p else kvs ++ [(k, v)]

/-! ### scopes -/
def newScope (name : String) (parent : Option Nat := none) : M Nat := do
  let s ← get
  set { s with scopes := s.scopes.push { name := name, parent := parent, children := [], vars := [] } }
  pure s.scopes.size
def getScope (i : Nat) : M Scope := do return (← get).scopes.getD i default
def setScope (i : Nat) (sc : Scope) : M Unit := modify fun s => { s with scopes := s.scopes.setIfInBounds i sc }

def newChild (parent : Nat) (name : String) : M Nat := do
  let p ← getScope parent
  let s ← get
  match p.children.find? fun c => (s.scopes.getD c default).name == name with
  | some c => pure c
  | none =>
    let c ← newScope name (some parent)
    setScope parent { p with children := p.children ++ [c] }
    pure c

def scopeFor : Nat → Nat → String → M (Option Nat)
  | 0, _, _ => throw Sig.fuel
  | f+1, sc, v => do
    let s ← getScope sc
    if (s.vars.find? (·.1 == v)).isSome then pure (some sc)
    else match s.parent with
      | some p => scopeFor f p v
      | none => pure none

def splitDots (s : List Nat) : List (List Nat) :=
  let rec go : List Nat → List Nat → List (List Nat)
    | [], acc => [acc.reverse]
    | c :: cs, acc => if c = 46 then acc.reverse :: go cs [] else go cs (c :: acc)
  go s []

def bytesToString (b : List Nat) : String := String.fromUTF8! (ByteArray.mk (b.map (·.toUInt8)).toArray)

/-- strconv.Atoi on a byte string (decimal, optional sign) -/
def atoi (s : List Nat) : Option Int :=
  let (neg, ds) := match s with
    | 45 :: r => (true, r) | 43 :: r => (false, r) | r => (false, r)
  if ds.isEmpty || !(ds.all fun c => 48 ≤ c && c ≤ 57) || ds.length > 18 then none
  else
    let n : Nat := ds.foldl (fun a c => a * 10 + (c - 48)) 0
    some (if neg then -(n : Int) else (n : Int))

def plain (msg : String) : Sig := Sig.plainErr msg

/-- getValue.containerAccess -/
def containerGet : Nat → List (List Nat) → Val → M (Val × Bool)
  | 0, _, _ => throw Sig.fuel
  | _, [], c => pure (c, true)
  | f+1, fld :: rest, c => do
    let ret ← (match c with
      | .map r => do
        let kvs ← getMap r
        let byNum := match atoi fld with
          | some i => mapLookup kvs (.num (Float.ofInt i))
          | none => none
        match byNum with
        | some v => pure v
        | none => pure ((mapLookup kvs (.str fld)).getD Val.null)
      | .list r => do
        let vs ← getList r
        match atoi fld with
        | some i =>
          let i := if i < 0 then i + vs.length else i
          if i < (vs.length : Int) then
            if i < 0 then throw Sig.panic else pure (vs.getD i.toNat Val.null)
          else throw (plain "Out of bounds access to list")
        | none => throw (plain "List needs a number index")
      | _ => throw (plain "Variable is not a container"))
    if rest.isEmpty then
      pure (ret, match ret with | .null => false | _ => true)
    else containerGet f rest ret

def getValue (sc : Nat) (name : List Nat) : M (Val × Bool) := do
  let flds := splitDots name
  match flds with
  | [v] =>
    match ← scopeFor 10000 sc (bytesToString v) with
    | some s => pure (((← getScope s).vars.find? (·.1 == bytesToString v)).map (·.2) |>.getD Val.null, true)
    | none => pure (Val.null, false)
  | v :: rest =>
    match ← scopeFor 10000 sc (bytesToString v) with
    | some s =>
      let c := ((← getScope s).vars.find? (·.1 == bytesToString v)).map (·.2) |>.getD Val.null
      containerGet 10000 rest c
    | none => pure (Val.null, false)
  | [] => pure (Val.null, false)

def setVar (sc : Nat) (v : String) (x : Val) : M Unit := do
  let s ← getScope sc
  let vars := if (s.vars.find? (·.1 == v)).isSome then s.vars.map fun p => if p.1 == v then (v, x) else p else s.vars ++ [(v, x)]
  setScope sc { s with vars := vars }

/-- setValue.containerAccess (string keys only for maps) -/
def containerWalk : Nat → List (List Nat) → Val → M Val
  | 0, _, _ => throw Sig.fuel
  | _, [], c => pure c
  | f+1, fld :: rest, c => do
    let nxt ← (match c with
      | .map r => do
        match mapLookup (← getMap r) (.str fld) with
        | some v => pure v
        | none => throw (plain "Container field does not exist")
      | .list r => do
        let vs ← getList r
        match atoi fld with
        | some i =>
          let i := if i < 0 then i + vs.length else i
          if i < (vs.length : Int) then
            if i < 0 then throw Sig.panic else pure (vs.getD i.toNat Val.null)
          else throw (plain "Out of bounds access to list")
        | none => throw (plain "List needs a number index")
      | _ => throw (plain "Variable is not a container"))
    -- Go: `if err == nil && len(fields) > 2 { recurse with fields[1:] }` – the last field is handled by the caller
    if rest.length > 1 then containerWalk f rest nxt else pure nxt

def setValue (sc : Nat) (name : List Nat) (x : Val) : M Unit := do
  let flds := splitDots name
  match flds with
  | [v] =>
    let v := bytesToString v
    match ← scopeFor 10000 sc v with
    | some s => setVar s v x
    | none => setVar sc v x
  | v :: rest =>
    let (c, ok) ← getValue sc v
    if !ok then throw (plain "Variable is not a container")
    let container ← (if flds.length > 2 then containerWalk 10000 rest c else pure c)
    let last := rest.getLast!
    match container with
    | .null => pure ()            -- `container != nil` guard: silently nothing
    | .map r =>
      let kvs ← getMap r
      modify fun s => { s with maps := s.maps.setIfInBounds r (mapStore kvs (.str last) x) }
    | .list r =>
      let vs ← getList r
      match atoi last with
      | some i =>
        let i := if i < 0 then i + vs.length else i
        if i < (vs.length : Int) then
          if i < 0 then throw Sig.panic
          else modify fun s => { s with lists := s.lists.setIfInBounds r (vs.set i.toNat x) }
        else throw (plain "Out of bounds access to list")
      | none => throw (plain "List needs a number index")
    | _ => throw (plain "Variable is not a container")
  | [] => pure ()

def setLocalValue (sc : Nat) (name : List Nat) (x : Val) : M Unit := do
  let v := bytesToString ((splitDots name).headD [])
  setVar sc v Val.null
  setValue sc name x

def scopeName (n : Node) : M String := do
  let t ← tokOf n
  pure s!"block: {n.name} (Line:{t.line} Pos:{t.col})"

def truthy : Val → Bool
  | .null => false | .bool false => false | _ => true      -- the number 0 is truthy (compared with an int 0)

def numberOf (t : Tok) : M Float :=
  -- strconv.ParseFloat of the token text (validated by the lexer model's grammar)
  let ds := t.val
  let isD (c : Nat) : Bool := 48 ≤ c && c ≤ 57
  let ip := ds.takeWhile isD
  let r := ds.dropWhile isD
  let (fp, r) := match r with
    | 46 :: r => (r.takeWhile isD, r.dropWhile isD)
    | r => ([], r)
  let ex := match r with
    | 101 :: 43 :: e => e.foldl (fun a c => a * 10 + (c - 48)) 0
    | _ => 0
  let m : Nat := (ip ++ fp).foldl (fun a c => a * 10 + (c - 48)) 0
  if ex ≥ fp.length then pure (Float.ofScientific m false (ex - fp.length))
  else pure (Float.ofScientific m true (fp.length - ex))

def isRtErr : Sig → Bool
  | .err _ _ => true | .ret _ _ => true | _ => false

/-- executeFunction's wrapping of non-runtime errors -/
def wrapCallErr (node : Node) (s : Sig) : Sig :=
  match s with
  | .plainErr _ => rtErr "Runtime error" node
  | .iter a b c d fst => .iter a b c d fst
  | s => s

def knownNodes : List String :=
  ["string","number","identifier","statements","funccall","compaccess","list","map","params","guard",
   ">=","<=","!=","==",">","<","kvp","preset","plus","minus","times","div","modint","divint",":=","let",
   "import","as","sink","kindmatch","scopematch","statematch","priority","suppresses","function","return",
   "or","and","not","like","in","hasprefix","hassuffix","notin","false","true","null","if","loop","break",
   "continue","try","except","otherwise","finally","mutex"]

/-- Validate(): children first, then the node's own checks; first error wins -/
partial def validate (n : Node) : Except Sig Unit := do
  for c in n.children do
    match c with
    | some c => validate c
    | none => throw Sig.panic
  if !(knownNodes.contains n.name) then throw (rtErr "Invalid construct" n)
  match n.name with
  | ":=" =>
    let l0 ← (match n.children[0]? with | some (some x) => pure x | _ => throw Sig.panic)
    let l ← (if l0.name == "let" then (match l0.children[0]? with | some (some x) => pure x | _ => throw Sig.panic) else pure l0)
    if l.name == "identifier" then pure ()
    else if l.name == "list" then
      for c in l.children do
        match c with
        | some c => if c.name != "identifier" then throw (rtErr "Cannot access variable" n)
        | none => throw Sig.panic
    else throw (rtErr "Cannot access variable" n)
  | "let" =>
    let l ← (match n.children[0]? with | some (some x) => pure x | _ => throw Sig.panic)
    if l.name == "identifier" then pure ()
    else if l.name == "list" then
      for c in l.children do
        match c with
        | some c => if c.name != "identifier" then throw (rtErr "Invalid construct" n)
        | none => throw Sig.panic
    else throw (rtErr "Invalid construct" n)
  | "loop" =>
    let c0 ← (match n.children[0]? with | some (some x) => pure x | _ => throw Sig.panic)
    if c0.name == "in" then
      let iv ← (match c0.children[0]? with | some (some x) => pure x | _ => throw Sig.panic)
      if iv.name == "identifier" then
        if !iv.children.isEmpty then throw (rtErr "Invalid construct" n)
      else if iv.name == "list" then
        for c in iv.children do
          match c with
          | some c => if c.name != "identifier" || !c.children.isEmpty then throw (rtErr "Invalid construct" n)
          | none => throw Sig.panic
  | "sink" | "import" | "mutex" | "like" => throw (Sig.unsupported s!"node {n.name}")
  | _ => pure ()


mutual
def eval : Nat → Nat → Node → M Val          -- fuel, scope, node
  | 0, _, _ => throw Sig.fuel
  | f+1, sc, n => do
    match n.name with
    | "number" => do pure (.num (← numberOf (← tokOf n)))
    | "string" =>
      let t ← tokOf n
      if t.allowEscapes then do
        let r ← interpolate f sc n t.val
        pure (.str r)
      else pure (.str t.val)
    | "true" => pure (.bool true) | "false" => pure (.bool false) | "null" => pure .null
    | "list" =>
      let vs ← n.children.mapM fun c => do
        match c with | some c => eval f sc c | none => throw Sig.panic
      newList vs
    | "map" =>
      let mut kvs : List (Val × Val) := []
      for c in n.children do
        let kvp ← (match c with | some c => pure c | none => throw Sig.panic)
        let k ← eval f sc (← child kvp 0)
        let v ← eval f sc (← child kvp 1)
        if !(hashable k) then throw Sig.panic
        kvs := mapStore kvs k v
      newMap kvs
    | "plus" => if n.children.length == 1 then numVal f sc n id else numOp f sc n (fun a b => .num (a + b))
    | "minus" => if n.children.length == 1 then numVal f sc n (fun a => -a) else numOp f sc n (fun a b => .num (a - b))
    | "times" => numOp f sc n (fun a b => .num (a * b))
    | "div" => numOp f sc n (fun a b => .num (a / b))
    | "divint" => numOp f sc n (fun a b => .num (a / b).floor)
    | "modint" =>
      -- float64(int64(a) % int64(b)); out-of-range conversions are outside the prototype
      let a ← eval f sc (← child n 0)
      let b ← eval f sc (← child n 1)
      match a, b with
      | .num x, .num y =>
        if x.abs ≥ 9e18 || y.abs ≥ 9e18 || x.isNaN || y.isNaN then throw (Sig.unsupported "int64 conversion")
        else
          let xi := x.toInt64.toInt
          let yi := y.toInt64.toInt
          if yi = 0 then throw Sig.panic else pure (.num (Float.ofInt (xi.tmod yi)))
      | .num _, _ => throw (rtErr "Operand is not a number" (← child n 1))
      | _, _ => throw (rtErr "Operand is not a number" (← child n 0))
    | ">=" => cmpOp f sc n (fun a b => a ≥ b) (fun a b => decide (a ≥ b))
    | ">" => cmpOp f sc n (fun a b => a > b) (fun a b => decide (a > b))
    | "<=" => cmpOp f sc n (fun a b => a ≤ b) (fun a b => decide (a ≤ b))
    | "<" => cmpOp f sc n (fun a b => a < b) (fun a b => decide (a < b))
    | "==" => do
      let a ← eval f sc (← child n 0); let b ← eval f sc (← child n 1)
      pure (.bool (← goEq a b))
    | "!=" => do
      let a ← eval f sc (← child n 0); let b ← eval f sc (← child n 1)
      pure (.bool !(← goEq a b))
    | "and" => boolOp f sc n (fun a b => a && b)
    | "or" => boolOp f sc n (fun a b => a || b)
    | "not" =>
      let v ← eval f sc (← child n 0)
      match v with
      | .bool b => pure (.bool !b)
      | _ => throw (rtErr "Operand is not a boolean" (← child n 0))
    | "in" => inOp f sc n
    | "notin" => do
      match ← inOp f sc n with
      | .bool b => pure (.bool !b)
      | v => pure v
    | "hasprefix" => strOp f sc n (fun a b => b.isPrefixOf a)
    | "hassuffix" => strOp f sc n (fun a b => b.reverse.isPrefixOf a.reverse)
    | "identifier" => evalIdent f sc n
    | "statements" =>
      let mut res := Val.null
      for c in n.children do
        match c with
        | some c => res ← eval f sc c
        | none => throw Sig.panic
      pure res
    | ":=" => evalAssign f sc n
    | "let" =>
      let lv ← child n 0
      if lv.name == "identifier" then
        if lv.children.isEmpty then setLocalValue sc (← tokOf lv).val Val.null
        else throw (rtErr "Invalid construct" n)
      else if lv.name == "list" then
        for c in lv.children do
          match c with
          | some c => if c.children.isEmpty then setLocalValue sc (← tokOf c).val Val.null else throw (rtErr "Invalid construct" n)
          | none => throw Sig.panic
      eval f sc lv
    | "if" =>
      let bs ← newChild sc (← scopeName n)
      evalIf f bs n.children
    | "guard" =>
      let v ← eval f sc (← child n 0)
      pure (.bool (truthy v))
    | "loop" => evalLoop f sc n
    | "break" => throw (rtErr "End of iteration was reached" n)
    | "continue" => throw (rtErr "End of iteration step - Continue iteration" n)
    | "return" =>
      let v ← if n.children.isEmpty then pure Val.null else eval f sc (← child n 0)
      match rtErr "*** return ***" n with
      | .err e _ => throw (Sig.ret e v)
      | s => throw s
    | "function" =>
      let c0 ← child n 0
      let c0tok ← (if c0.name == "identifier" then do pure (← tokOf c0).val else pure [])
      let name := bytesToString c0tok
      let s ← get
      set { s with funcs := s.funcs.push { name := name, decl := n, declScope := sc } }
      let fv := Val.func s.funcs.size
      if name != "" then setValue sc c0tok fv
      pure fv
    | "try" => evalTry f sc n
    | "kvp" | "preset" | "params" | "funccall" | "compaccess" | "as" | "except" | "otherwise" | "finally" => pure Val.null
    | _ => throw (Sig.unsupported s!"node {n.name}")

/-- stringValueRuntime.Eval: loop { GetInfix; parse+eval the code in a child scope; replace once } -/
def interpolate : Nat → Nat → Node → List Nat → M (List Nat)
  | 0, _, _, _ => throw Sig.fuel
  | f+1, sc, n, ret => do
    -- GetInfix(ret, "{{", "}}")
    let idx (pat : List Nat) (l : List Nat) : Option Nat :=
      (List.range (l.length + 1)).find? fun i => pat.isPrefixOf (l.drop i)
    match idx [123, 123] ret with
    | none => pure ret
    | some s0 =>
      let s := s0 + 2
      match idx [125, 125] ret with
      | none => pure ret
      | some e =>
        if e < s then throw Sig.panic                     -- str[s:e] with e < s
        let code := (ret.drop s).take (e - s)
        if code == ret then pure ret
        else
          let repl ← (match Ecal.Parse.parse code with
            | (some ast, none) =>
              match validate ast with
              | .ok _ => do
                let cs ← newChild sc (← scopeName n)
                match ← attemptE (eval f cs ast) with
                | .ok v => sprint v
                | .error Sig.panic => throw Sig.panic
                | .error Sig.fuel => throw Sig.fuel
                | .error (Sig.unsupported w) => throw (Sig.unsupported w)
                | .error _ => throw (Sig.unsupported "error text inside interpolation")
              | .error _ => throw (Sig.unsupported "error text inside interpolation")
            | (_, some Ecal.Parse.Err.panic) => throw Sig.panic
            | _ => throw (Sig.unsupported "error text inside interpolation"))
          -- strings.Replace(ret, "{{"+code+"}}", repl, 1): the first occurrence is the one at s0
          let ret' := ret.take s0 ++ repl ++ ret.drop (e + 2)
          interpolate f sc n ret'

def numVal : Nat → Nat → Node → (Float → Float) → M Val
  | 0, _, _, _ => throw Sig.fuel
  | f+1, sc, n, op => do
    let v ← eval f sc (← child n 0)
    match v with
    | .num x => pure (.num (op x))
    | _ => throw (rtErr "Operand is not a number" (← child n 0))

def numOp : Nat → Nat → Node → (Float → Float → Val) → M Val
  | 0, _, _, _ => throw Sig.fuel
  | f+1, sc, n, op => do
    if n.children.length != 2 then throw Sig.panic
    let a ← eval f sc (← child n 0)
    let b ← eval f sc (← child n 1)
    match a, b with
    | .num x, .num y => pure (op x y)
    | .num _, _ => throw (rtErr "Operand is not a number" (← child n 1))
    | _, _ => throw (rtErr "Operand is not a number" (← child n 0))

/-- numOp, and on ANY error strOp (which evaluates the operands again) -/
def cmpOp : Nat → Nat → Node → (Float → Float → Bool) → (String → String → Bool) → M Val
  | 0, _, _, _, _ => throw Sig.fuel
  | f+1, sc, n, nop, sop => do
    match ← attemptE (numOp f sc n (fun a b => .bool (nop a b))) with
    | .ok v => pure v
    | .error Sig.panic => throw Sig.panic
    | .error Sig.fuel => throw Sig.fuel
    | .error (Sig.unsupported w) => throw (Sig.unsupported w)
    | .error _ =>
      let a ← eval f sc (← child n 0)
      let b ← eval f sc (← child n 1)
      let sa ← sprint a
      let sb ← sprint b
      -- Go compares the byte strings; String comparison on valid UTF-8 agrees with byte order
      pure (.bool (sop (bytesToString sa) (bytesToString sb)))

def strOp : Nat → Nat → Node → (List Nat → List Nat → Bool) → M Val
  | 0, _, _, _ => throw Sig.fuel
  | f+1, sc, n, op => do
    let a ← eval f sc (← child n 0)
    let b ← eval f sc (← child n 1)
    pure (.bool (op (← sprint a) (← sprint b)))

def boolOp : Nat → Nat → Node → (Bool → Bool → Bool) → M Val
  | 0, _, _, _ => throw Sig.fuel
  | f+1, sc, n, op => do
    let a ← eval f sc (← child n 0)
    let b ← eval f sc (← child n 1)
    match a, b with
    | .bool x, .bool y => pure (.bool (op x y))
    | .bool _, _ => throw (rtErr "Operand is not a boolean" (← child n 0))    -- positioned at child 0 (sic)
    | _, _ => throw (rtErr "Operand is not a boolean" (← child n 0))

def inOp : Nat → Nat → Node → M Val
  | 0, _, _ => throw Sig.fuel
  | f+1, sc, n => do
    let a ← eval f sc (← child n 0)
    let b ← eval f sc (← child n 1)
    match b with
    | .list r =>
      let vs ← getList r
      let mut found := false
      for v in vs do
        if !found then
          if ← goEq a v then found := true
      pure (.bool found)
    | _ => throw (rtErr "Operand is not a list" (← child n 0))

def evalIf : Nat → Nat → List (Option Node) → M Val
  | 0, _, _ => throw Sig.fuel
  | f+1, sc, some g :: some body :: rest => do
    match ← eval f sc g with
    | .bool true => eval f sc body
    | _ => evalIf f sc rest
  | _, _, [] => pure Val.null
  | _, _, _ => throw Sig.panic

def evalAssign : Nat → Nat → Node → M Val
  | 0, _, _ => throw Sig.fuel
  | f+1, sc, n => do
    -- Validate
    let lhs0 ← child n 0
    let lhs ← if lhs0.name == "let" then child lhs0 0 else pure lhs0
    let targets : List Node ← (
      if lhs.name == "identifier" then pure [lhs]
      else if lhs.name == "list" then
        lhs.children.mapM fun c => match c with
          | some c => if c.name == "identifier" then pure c else throw (rtErr "Cannot access variable" n)
          | none => throw Sig.panic
      else throw (rtErr "Cannot access variable" n))
    let _ ← eval f sc lhs0
    let v ← eval f sc (← child n 1)
    match targets with
    | [t] => identSet f sc t v
    | ts =>
      match v with
      | .list r =>
        let vs ← getList r
        if vs.length != ts.length then throw (rtErr "Invalid state" n)
        for (t, x) in ts.zip vs do
          match ← attemptE (identSet f sc t x) with
          | .ok _ => pure ()
          | .error (Sig.plainErr _) => throw (rtErr "Cannot access variable" n)
          | .error e => throw e
      | _ => throw (rtErr "Invalid state" n)
    pure Val.null

/-- identifierRuntime.Set -/
def identSet : Nat → Nat → Node → Val → M Unit
  | 0, _, _, _ => throw Sig.fuel
  | f+1, sc, n, v => do
    let t ← tokOf n
    if n.children.isEmpty then setValue sc t.val v
    else
      let (_, path) ← accessString f sc n t.val
      setValue sc path v

/-- buildAccessString: (node where a call was found, path, call found?) ; a call inside the path
    is reported by the Bool -/
def accessString : Nat → Nat → Node → List Nat → M (Option Node × List Nat)
  | 0, _, _, _ => throw Sig.fuel
  | f+1, sc, n, pre => do
    let mut res := pre
    let kids := n.children
    let mut i := 0
    for c in kids do
      let c ← (match c with | some c => pure c | none => throw Sig.panic)
      if c.name == "compaccess" then
        let v ← eval f sc (← child c 0)
        res := res ++ [46] ++ (← sprint v)
        match kids[i+1]? with
        | some (some nx) => if nx.name == "funccall" then throw (Sig.unsupported "call after index")
        | _ => pure ()
      else if c.name == "identifier" then
        res := res ++ [46] ++ (← tokOf c).val
        match c.children.head? with
        | some (some g) =>
          if g.name == "funccall" then return (some c, res)
          else
            let (fn, r) ← accessString f sc c res
            res := r
            if fn.isSome then return (fn, res)
        | some none => throw Sig.panic
        | none => pure ()
      i := i + 1
    pure (none, res)

def evalIdent : Nat → Nat → Node → M Val
  | 0, _, _ => throw Sig.fuel
  | f+1, sc, n => do
    let t ← tokOf n
    if n.children.isEmpty then
      pure (← getValue sc t.val).1
    else
      let (callNode, path) ← accessString f sc n t.val
      match callNode with
      | some cn =>
        -- a.b(args): only without a further chain in this prototype
        let after := cn.children.drop 1
        if !after.isEmpty then throw (Sig.unsupported "chain after call")
        let (fv, _) ← getValue sc path
        callFunction f sc cn path fv
      | none =>
        let (v, _) ← getValue sc path
        let hasCall := n.children.any fun c => match c with | some c => c.name == "funccall" | none => false
        if hasCall then callFunction f sc n path v else pure v

/-- resolveFunction + executeFunction for the first funccall child of `node` -/
def callFunction : Nat → Nat → Node → List Nat → Val → M Val
  | 0, _, _, _, _ => throw Sig.fuel
  | f+1, sc, node, path, fv => do
    let fc ← (match node.children.find? fun c => match c with | some c => c.name == "funccall" | none => false with
      | some (some fc) => pure fc
      | _ => throw Sig.panic)
    let pathS := bytesToString path
    let isLog := pathS == "log" || pathS == "error" || pathS == "debug"
    let target : Option Val :=
      if isLog then some (.builtin pathS)
      else match fv with
        | .func _ => some fv
        | .builtin _ => some fv
        | _ => if ["len", "range", "raise", "add", "del", "concat", "type", "new"].contains pathS then some (.builtin pathS) else none
    match target with
    | none => throw (rtErr "Unknown construct" node)
    | some tv =>
      let args ← fc.children.mapM fun c => match c with | some c => eval f sc c | none => throw Sig.panic
      let r ← attemptE (match tv with
        | .func id => runFunction f sc id args
        | .builtin b => runBuiltin f sc node b args
        | _ => throw Sig.panic)
      match r with
      | .ok v => pure v
      | .error e => throw (wrapCallErr node e)

def runBuiltin : Nat → Nat → Node → String → List Val → M Val
  | 0, _, _, _, _ => throw Sig.fuel
  | _+1, _, node, b, args => do
    match b with
    | "log" | "error" | "debug" =>
      let parts ← args.mapM fun a => match a with
        | .str s => pure s
        | _ => throw (Sig.unsupported "log of non-string")
      modify fun s => { s with log := s.log.push (str b ++ [58] ++ parts.flatten) }
      pure Val.null
    | "len" =>
      match args with
      | .list r :: _ => pure (.num (Float.ofNat (← getList r).length))
      | .map r :: _ => pure (.num (Float.ofNat (← getMap r).length))
      | _ => throw (plain "Need a list or a map as first parameter")
    | "raise" =>
      let ty ← (match args with
        | [] => pure "<nil>"
        | a :: _ => do pure (bytesToString (← sprint a)))
      let data := args.getD 2 Val.null
      match rtErr ty node with
      | .err e _ => throw (Sig.err e data)
      | s => throw s
    | "range" =>
      let num (i : Nat) (v : Val) : M Float := match v with
        | .num x => pure x
        | .str _ => throw (Sig.unsupported "range with string argument")
        | _ => throw (plain s!"Parameter {i} should be a number")
      match args with
      | [] => throw (plain "Need at least an end range as first parameter")
      | [a] => do let t ← num 1 a; throw (Sig.iter 0 t 1 0 true)
      | a :: b :: rest => do
        let fr ← num 1 a; let t ← num 2 b
        let st ← (match rest with | c :: _ => num 3 c | [] => pure 1)
        throw (Sig.iter fr t st fr true)
    | _ => throw (Sig.unsupported s!"builtin {b}")

/-- function.Run -/
def runFunction : Nat → Nat → Nat → List Val → M Val
  | 0, _, _, _ => throw Sig.fuel
  | f+1, callerSc, id, args => do
    let fr := (← get).funcs.getD id default
    let decl := fr.decl
    let c0 ← child decl 0
    let off := if c0.name == "identifier" then 1 else 0
    let params := (← child decl off).children
    let body ← child decl (off + 1)
    let fvs ← newScope s!"func: {fr.name}"
    let mut i := 0
    for p in params do
      let p ← (match p with | some p => pure p | none => throw Sig.panic)
      if p.name == "identifier" then
        setValue fvs (← tokOf p).val (args.getD i Val.null)
      else if p.name == "preset" then
        let nameTok ← tokOf (← child p 0)
        let v ← if i < args.length then pure (args.getD i Val.null) else eval f callerSc (← child p 1)
        setValue fvs nameTok.val v
      i := i + 1
    -- SetParentOfScope(fvs, declarationVS)
    let s ← getScope fvs
    setScope fvs { s with parent := some fr.declScope }
    match ← attemptE (eval f fvs body) with
    | .ok v => pure v
    | .error (Sig.ret _ v) => pure v
    | .error e => throw e

def evalLoop : Nat → Nat → Node → M Val
  | 0, _, _ => throw Sig.fuel
  | f+1, sc, n => do
    let c0 ← child n 0
    -- Validate: loop variables
    let vars : List (List Nat) ← (
      if c0.name == "in" then do
        let iv ← child c0 0
        if iv.name == "identifier" then
          if !iv.children.isEmpty then throw (rtErr "Invalid construct" n) else pure [(← tokOf iv).val]
        else if iv.name == "list" then
          iv.children.mapM fun c => match c with
            | some c => do
              if c.name != "identifier" || !c.children.isEmpty then throw (rtErr "Invalid construct" n)
              pure (← tokOf c).val
            | none => throw Sig.panic
        else pure []
      else pure [])
    let ls ← newChild sc (← scopeName n)
    let body ← child n 1
    if c0.name == "guard" then
      whileLoop f ls c0 body
    else if c0.name == "in" then
      let it ← child c0 1
      match ← attemptE (eval f ls it) with
      | .error (Sig.iter fr to st _ _) =>
        rangeLoop f ls n vars body fr to st fr
      | .error (Sig.err e d) =>
        -- getIterator hands the error through; the loop body never runs, and the final
        -- "end of iteration" check swallows a `break` that leaked out of the iterable expression
        if e.type == "End of iteration was reached" then pure Val.null else throw (Sig.err e d)
      | .error e => throw e
      | .ok v =>
        let items : List Val ← (match v with
          | .list r => getList r
          | .map r => do
            let kvs ← getMap r
            -- keys sorted by their string form
            let keyed ← kvs.mapM fun (k, x) => do pure (bytesToString (← sprint k), k, x)
            let sorted := keyed.toArray.qsort (fun a b => a.1 < b.1) |>.toList
            sorted.mapM fun (_, k, x) => newList [k, x]
          | v => pure [v])
        itemsLoop f ls n vars body items
    else throw Sig.panic

def whileLoop : Nat → Nat → Node → Node → M Val
  | 0, _, _, _ => throw Sig.fuel
  | f+1, ls, g, body => do
    match ← eval f ls g with
    | .bool true =>
      match ← attemptE (eval f ls body) with
      | .ok _ => whileLoop f ls g body
      | .error (Sig.err e d) =>
        if e.type == "End of iteration step - Continue iteration" then whileLoop f ls g body
        else throw (Sig.err e d)      -- includes `break`: not handled in the guard loop (sic)
      | .error e => throw e
    | _ => pure Val.null

def bindLoopVars : Nat → Nat → Node → List (List Nat) → Val → M Unit
  | 0, _, _, _, _ => throw Sig.fuel
  | _+1, ls, n, vars, item => do
    match vars with
    | [v] => setValue ls v item
    | vs =>
      match item with
      | .list r =>
        let xs ← getList r
        if xs.length != vs.length then throw (rtErr "Runtime error" n)
        for (v, x) in vs.zip xs do setValue ls v x
      | _ => throw (rtErr "Runtime error" n)

/-- body of one iteration; returns false when the loop has to stop (break) -/
def loopBody : Nat → Nat → Node → M Bool
  | 0, _, _ => throw Sig.fuel
  | f+1, ls, body => do
    match ← attemptE (eval f ls body) with
    | .ok _ => pure true
    | .error (Sig.err e d) =>
      if e.type == "End of iteration step - Continue iteration" then pure true
      else if e.type == "End of iteration was reached" then pure false
      else throw (Sig.err e d)
    | .error e => throw e

def itemsLoop : Nat → Nat → Node → List (List Nat) → Node → List Val → M Val
  | 0, _, _, _, _, _ => throw Sig.fuel
  | _, _, _, _, _, [] => pure Val.null
  | f+1, ls, n, vars, body, x :: xs => do
    bindLoopVars f ls n vars x
    if ← loopBody f ls body then itemsLoop f ls n vars body xs else pure Val.null

def rangeLoop : Nat → Nat → Node → List (List Nat) → Node → Float → Float → Float → Float → M Val
  | 0, _, _, _, _, _, _, _, _ => throw Sig.fuel
  | f+1, ls, n, vars, body, fr, to, st, cur => do
    -- end test of rangeFunc
    if (fr < to && cur > to) || (fr > to && cur < to) || fr == to then pure Val.null
    else
      bindLoopVars f ls n vars (.num cur)
      if ← loopBody f ls body then rangeLoop f ls n vars body fr to st (cur + st) else pure Val.null

def evalTry : Nat → Nat → Node → M Val
  | 0, _, _ => throw Sig.fuel
  | f+1, sc, n => do
    let last ← (match n.children.getLast? with | some (some l) => pure l | _ => throw Sig.panic)
    let fin : Option Node := if last.name == "finally" then some last else none
    let finScope ← (match fin with
      | some fi => do pure (some (← newChild sc (← scopeName fi)))
      | none => pure none)
    let r ← attemptE (tryBody f sc n)
    -- deferred finally: result and error discarded
    match fin, finScope with
    | some fi, some fs =>
      match ← attemptE (do eval f fs (← child fi 0)) with
      | .error Sig.panic => throw Sig.panic
      | .error Sig.fuel => throw Sig.fuel
      | .error (Sig.unsupported w) => throw (Sig.unsupported w)
      | _ => pure ()
    | _, _ => pure ()
    match r with
    | .ok v => pure v
    | .error e => throw e

def tryBody : Nat → Nat → Node → M Val
  | 0, _, _ => throw Sig.fuel
  | f+1, sc, n => do
    let tvs ← newChild sc (← scopeName n)
    match ← attemptE (eval f tvs (← child n 0)) with
    | .ok v =>
      -- otherwise
      let oth := n.children.drop 1 |>.find? fun c => match c with | some c => c.name == "otherwise" | none => false
      match oth with
      | some (some o) =>
        let ovs ← newChild sc (← scopeName o)
        let _ ← eval f ovs (← child o 0)
        pure v
      | _ => pure v
    | .error Sig.panic => throw Sig.panic
    | .error Sig.fuel => throw Sig.fuel
    | .error (Sig.unsupported w) => throw (Sig.unsupported w)
    | .error e =>
      let ty : String := match e with
        | .err re _ => re.type
        | .ret re _ => "UnexpectedError"      -- *returnValue is not a *RuntimeError
        | _ => "UnexpectedError"
      let _ := ty
      exceptClauses f sc (n.children.drop 1) e ty

def exceptClauses : Nat → Nat → List (Option Node) → Sig → String → M Val
  | 0, _, _, _, _ => throw Sig.fuel
  | _, _, [], e, _ => throw e
  | f+1, sc, c :: rest, e, ty => do
    let c ← (match c with | some c => pure c | none => throw Sig.panic)
    if c.name != "except" then exceptClauses f sc rest e ty
    else
      let k := c.children.length
      if k == 1 then
        let evs ← newChild sc (← scopeName c)
        let _ ← eval f evs (← child c 0)
        pure Val.null
      else if k == 2 then
        let evs ← newChild sc (← scopeName c)
        setValue evs (← tokOf (← child c 0)).val (← errObject e)
        let _ ← eval f evs (← child c 1)
        pure Val.null
      else
        -- typed clause
        let mut hit := false
        for ch in c.children do
          let ch ← (match ch with | some ch => pure ch | none => throw Sig.panic)
          if !hit && ch.name == "string" then
            match ← eval f sc ch with
            | .str s => if bytesToString s == ty then hit := true
            | _ => pure ()
        if hit then
          let evs ← newChild sc (← scopeName c)
          for ch in c.children do
            let ch ← (match ch with | some ch => pure ch | none => throw Sig.panic)
            if ch.name == "as" then setValue evs (← tokOf (← child ch 0)).val (← errObject e)
          let stm ← (match c.children.getLast? with | some (some s) => pure s | _ => throw Sig.panic)
          let _ ← eval f evs stm
          pure Val.null
        else exceptClauses f sc rest e ty

def errObject : Sig → M Val
  | .err re d => do
    newMap [(.str (str "type"), .str (str re.type)), (.str (str "line"), .num (Float.ofNat re.line)),
            (.str (str "data"), d)]
  | _ => newMap [(.str (str "type"), .str (str "UnexpectedError"))]
end

end Ecal.Ev

namespace Ecal.Ev
open Ecal.Lex Ecal.Parse

end Ecal.Ev
