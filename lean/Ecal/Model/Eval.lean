import Ecal.Model.Parser
/-!
Executable model of the interpreter core of krotik/ecal (`/repo/interpreter`, `/repo/scope`) at the
CURRENT commit (all `fix:` commits applied): values with a heap (lists are Go slices: backing array +
length, maps by reference), the scope tree with named child reuse, flattened access paths, `Validate`,
operators, statements, user functions, try, builtins, one-pass string interpolation, objects
(`new` with `addSuperClasses`, functions bound to `this` / `super`; added by C05).

Only the TYPES `Node`/`Tok` of the parser model are used; the tree that is evaluated is the one the
real Go parser produced (see `Ecal/Drivers/EvalCommon.lean`).  Embedded expressions of interpolating
string literals are looked up in `St.interp` (code text ↦ tree / replacement text), also produced by
the real parser.

Outcome of a run: value | `Sig.err` (RuntimeError / RuntimeErrorWithDetail) | `Sig.plainErr` (other Go
error) | `Sig.ret` (returnValue) | `Sig.iter` (ErrIsIterator with the value that travels with it) |
`Sig.panic` (Go runtime panic) | `Sig.fuel` | `Sig.unsupported` (outside this model).

The control-flow skeleton is factored into combinators that are NOT part of the mutual block
(`ifChain`, `guardLoop`, `iterLoop`, `tryCore`, `dispatchExcept`, `tryFinally`, `callCore`,
`raiseSig`); the evaluator calls them with closures over itself.  The C04 theorems are about these
combinators.
-/
namespace Ecal.Ev
open Ecal.Lex Ecal.Parse

inductive Val where
  | null | bool (b : Bool) | num (f : Float) | str (s : List Nat)
  | list (ref : Nat) (len : Nat)      -- Go slice: backing array `ref` (its length is the capacity), length
  | map (ref : Nat) | func (id : Nat) | builtin (name : String)
  | opaque (what : String)            -- a value this model does not know (error texts, traces)
  deriving Inhabited

structure RtErr where
  type : String
  line : Nat
  pos  : Int
  deriving Repr, Inhabited, DecidableEq

inductive Sig where
  /-- `*util.RuntimeError` (`wd = none`) or `*util.RuntimeErrorWithDetail` (`wd = some (detail, data)`, from `raise`) -/
  | err (e : RtErr) (wd : Option (List Nat × Val))
  | plainErr (msg : String)           -- a non-runtime Go error (fmt.Errorf) travelling up unwrapped
  | ret (e : RtErr) (v : Val)         -- *returnValue
  | iter (e : RtErr) (cur : Float)    -- RuntimeError of type ErrIsIterator together with the returned value
  | panic | fuel | unsupported (why : String)
  deriving Inhabited

def tBreak := "End of iteration was reached"
def tContinue := "End of iteration step - Continue iteration"
def tIsIter := "Function is an iterator"
def tReturn := "*** return ***"

namespace Sig
/-- process-level outcomes that no ECAL construct can intercept -/
def isFatal : Sig → Bool
  | .panic => true | .fuel => true | .unsupported _ => true | _ => false
def isBreak : Sig → Bool
  | .err e none => e.type == tBreak | _ => false
def isContinue : Sig → Bool
  | .err e none => e.type == tContinue | _ => false
/-- tryRuntime.isControlFlow -/
def isControl : Sig → Bool
  | .ret _ _ => true
  | s => s.isBreak || s.isContinue
end Sig

structure Scope where
  name : String
  parent : Option Nat
  children : List Nat
  vars : List (String × Val)
  deriving Inhabited

structure FuncRec where
  name : String
  decl : Node
  declScope : Nat
  this : Option Val := none        -- function context: the object a method was bound to by `new`
  super : Option Val := none       -- list of the super templates' init functions (only on a bound `init`)
  deriving Inhabited

/-- state of one `range` call site inside one instance-state map -/
structure RangeSt where
  line : Nat
  col : Int
  fr : Float
  to : Float
  step : Float
  cur : Float

inductive InterpEntry where
  | ast (n : Node)                 -- parsed and validated by the real parser / Validate
  | text (repl : List Nat)         -- parse or validation error: the replacement text (`#…`)
  deriving Inhabited

structure St where
  lists : Array (List Val) := #[[]]          -- slot 0: the nil slice
  maps : Array (List (Val × Val)) := #[]
  scopes : Array Scope := #[]
  funcs : Array FuncRec := #[]
  log : Array String := #[]                   -- ordered: marker calls and log/error/debug output
  isStore : Array (List RangeSt) := #[[]]     -- instance-state maps (`is`)
  curIs : Nat := 0
  interp : List (List Nat × InterpEntry) := []

abbrev M := ExceptT Sig (StateM St)

/-- run `m`, turning its signal into a value; state changes made before it stay -/
def attemptE {α : Type} (m : M α) : M (Except Sig α) :=
  ExceptT.mk (do let r ← m.run; pure (Except.ok r))

/-! ### control-flow combinators (outside the mutual block) -/

/-- ifRuntime.Eval: guards in order, the first whose value is `true` selects its block -/
def ifChain : List (M Val × M Val) → M Val
  | [] => pure Val.null
  | (g, b) :: rest => do
    match ← g with
    | .bool true => b
    | _ => ifChain rest

/-- loopRuntime.Eval, guard form: `continue` ends the step, `break` (also one leaking out of the guard) the loop -/
def guardLoop (guard body : M Val) : Nat → M Val
  | 0 => throw Sig.fuel
  | f+1 => do
    match ← attemptE guard with
    | .ok (.bool true) =>
      match ← attemptE body with
      | .ok _ => guardLoop guard body f
      | .error e =>
        if e.isContinue then guardLoop guard body f
        else if e.isBreak then pure Val.null
        else throw e
    | .ok _ => pure Val.null
    | .error e => if e.isBreak then pure Val.null else throw e

/-- loopRuntime.handleIterator: `next` is the iterator (it signals its end with a break signal),
    `bind` sets the loop variables (its errors leave the loop at once), then the block runs -/
def iterLoop {σ : Type} (next : σ → M (Val × σ)) (bind : Val → M Unit) (body : M Val) : Nat → σ → M Val
  | 0, _ => throw Sig.fuel
  | f+1, s => do
    match ← attemptE (next s) with
    | .ok (v, s') =>
      bind v
      match ← attemptE body with
      | .ok _ => iterLoop next bind body f s'
      | .error e =>
        if e.isContinue then iterLoop next bind body f s'
        else if e.isBreak then pure Val.null
        else throw e
    | .error e =>
      if e.isContinue then iterLoop next bind body f s
      else if e.isBreak then pure Val.null
      else throw e

/-- an except clause: `none` = does not handle this error, `some v` = handled -/
abbrev Handler := Sig → M (Option Val)

/-- the loop over the except clauses in tryRuntime.Eval: the first clause that handles the error wins,
    an error no clause handles travels on unchanged -/
def dispatchExcept : List Handler → Sig → M Val
  | [], e => throw e
  | h :: hs, e => do
    match ← h e with
    | some v => pure v
    | none => dispatchExcept hs e

/-- tryRuntime.Eval without the deferred finally -/
def tryCore (body : M Val) (handlers : List Handler) (otherwise : Option (M Val)) : M Val := do
  match ← attemptE body with
  | .ok v =>
    match otherwise with
    | some o => do let _ ← o; pure v
    | none => pure v
  | .error e =>
    if e.isFatal || e.isControl then throw e
    else dispatchExcept handlers e

/-- `defer finally.Eval(...)`: runs after the rest on every way out, its value and error are dropped
    (only a process-level outcome of the finally block itself surfaces) -/
def tryFinally (main : M Val) (fin : Option (M Val)) : M Val := do
  let r ← attemptE main
  match fin with
  | some fi =>
    let skip := match r with
      | .error Sig.fuel => true | .error (Sig.unsupported _) => true | _ => false
    if !skip then
      match ← attemptE fi with
      | .error e => if e.isFatal then throw e
      | .ok _ => pure ()
  | none => pure ()
  match r with
  | .ok v => pure v
  | .error e => throw e

/-- function.Run after parameter binding: a return signal becomes the value of the call -/
def callCore (body : M Val) : M Val := do
  match ← attemptE body with
  | .ok v => pure v
  | .error (Sig.ret _ v) => pure v
  | .error e => throw e

/-- raise(type, detail, data) -/
def raiseSig (type : String) (detail : List Nat) (data : Val) (line : Nat) (pos : Int) : Sig :=
  Sig.err ⟨type, line, pos⟩ (some (detail, data))

/-- the type test of a typed except clause: the strings are evaluated in order until one equals the
    type of the error -/
def typedMatch (ty : String) (toName : List Nat → String) : List (M Val) → M Bool
  | [] => pure false
  | s :: ss => do
    match ← s with
    | .str b => if toName b == ty then pure true else typedMatch ty toName ss
    | _ => typedMatch ty toName ss

/-- the arithmetic the range iterator needs; the evaluator uses `floatOps`, the theorems `intOps` -/
structure NumOps (α : Type) where
  lt : α → α → Bool
  eq : α → α → Bool
  add : α → α → α
  zero : α
def floatOps : NumOps Float := ⟨fun a b => a < b, fun a b => a == b, fun a b => a + b, 0⟩
def intOps : NumOps Int := ⟨fun a b => a < b, fun a b => a == b, fun a b => a + b, 0⟩

/-- rangeFunc's end test: `cur` is beyond the (inclusive) end; the direction is the sign of the step
    (a step of 0 never ends unless the bounds are equal and `cur` has left them — it cannot) -/
def rangeDone {α : Type} (o : NumOps α) (fr to step cur : α) : Bool :=
  (o.lt o.zero step && o.lt to cur) || (o.lt step o.zero && o.lt cur to) || (o.eq fr to && !o.eq cur fr)

/-- the values a range iterator delivers (`n` bounds the number of steps) -/
def rangeVals {α : Type} (o : NumOps α) (fr to step : α) : Nat → α → List α
  | 0, _ => []
  | n+1, cur => if rangeDone o fr to step cur then [] else cur :: rangeVals o fr to step n (o.add cur step)

/-! ### nodes -/
def tokOf (n : Node) : M Tok := match n.tok with | some t => pure t | none => throw Sig.panic
def child (n : Node) (i : Nat) : M Node :=
  match n.children[i]? with
  | some (some c) => pure c
  | _ => throw Sig.panic        -- index out of range or nil child

def rtErr (type : String) (n : Node) : Sig :=
  match n.tok with
  | some t => Sig.err ⟨type, t.line, t.col⟩ none
  | none => Sig.err ⟨type, 0, 0⟩ none

def plain (msg : String) : Sig := Sig.plainErr msg

/-! ### values -/
def isIntegral (f : Float) : Bool := f.floor == f && f.abs < 1e21
def natToDec (n : Nat) : List Nat := (toString n).toUTF8.toList.map (·.toNat)

def hexDigitC (n : Nat) : Char := if n < 10 then Char.ofNat (48 + n) else Char.ofNat (87 + n)
def hexOf (bs : List Nat) : String := String.ofList (bs.flatMap fun b => [hexDigitC ((b / 16) % 16), hexDigitC (b % 16)])

/-- byte strings as Lean strings (names, keys of the scope storage, error types); injective -/
def bytesToString (b : List Nat) : String :=
  match String.fromUTF8? (ByteArray.mk (b.map (·.toUInt8)).toArray) with
  | some s => s
  | none => "\x00" ++ hexOf b

def bytesLt : List Nat → List Nat → Bool
  | [], [] => false
  | [], _ :: _ => true
  | _ :: _, [] => false
  | a :: as, b :: bs => if a < b then true else if b < a then false else bytesLt as bs

/-- insertion sort (stable) – the order of map keys in a `for [k, v] in map` loop -/
def insertBy {α : Type} (lt : α → α → Bool) (x : α) : List α → List α
  | [] => [x]
  | y :: ys => if lt x y then x :: y :: ys else y :: insertBy lt x ys
def sortBy {α : Type} (lt : α → α → Bool) : List α → List α
  | [] => []
  | x :: xs => insertBy lt x (sortBy lt xs)

/-- fmt.Sprint of a number: integral values below 1e21 only -/
def sprintNum (f : Float) : Except Sig (List Nat) :=
  if isIntegral f then
    let neg := f < 0 || (f == 0 && (1 / f) < 0)
    .ok ((if neg then [45] else []) ++ natToDec f.abs.toUInt64.toNat)
  else .error (Sig.unsupported "float formatting")

def joinBytes (sep : List Nat) : List (List Nat) → List Nat
  | [] => []
  | [x] => x
  | x :: xs => x ++ sep ++ joinBytes sep xs

/-- fmt.Sprint (`%v`) for the values this model supports; lists as `[a b]`, maps as `map[k:v …]` with
    the keys in fmt's order (all keys strings or all keys numbers; mixed key types are ordered by type
    addresses in Go) -/
def sprintD (lists : Array (List Val)) (maps : Array (List (Val × Val))) : Nat → Val → Except Sig (List Nat)
  | 0, _ => .error Sig.fuel
  | d+1, v =>
    match v with
    | .null => .ok (str "<nil>")
    | .bool true => .ok (str "true") | .bool false => .ok (str "false")
    | .str s => .ok s
    | .num f => sprintNum f
    | .opaque w => .error (Sig.unsupported s!"opaque value {w}")
    | .list r l => do
      let parts ← ((lists.getD r []).take l).mapM (sprintD lists maps d)
      pure ([91] ++ joinBytes [32] parts ++ [93])
    | .map r => do
      let kvs := maps.getD r []
      let allStr := kvs.all fun p => match p.1 with | .str _ => true | _ => false
      let allNum := kvs.all fun p => match p.1 with | .num f => !f.isNaN | _ => false
      if !(allStr || allNum) then throw (Sig.unsupported "formatting a map with mixed key types")
      let lt (a b : Val × Val) : Bool := match a.1, b.1 with
        | .str x, .str y => bytesLt x y
        | .num x, .num y => x < y
        | _, _ => false
      let sorted := sortBy lt kvs
      let parts ← sorted.mapM fun (k, x) => do
        pure ((← sprintD lists maps d k) ++ [58] ++ (← sprintD lists maps d x))
      pure (str "map[" ++ joinBytes [32] parts ++ [93])
    | _ => .error (Sig.unsupported "function formatting")

def sprint (v : Val) : M (List Nat) := do
  let st ← get
  match sprintD st.lists st.maps 60 v with
  | .ok s => pure s
  | .error e => throw e

def hashable : Val → Bool
  | .list _ _ => false | .map _ => false | _ => true

/-! Go slices: growth of the capacity as in runtime.growslice for 16-byte elements (go1.23, 64 bit) -/
def sizeClasses : List Nat :=
  [8, 16, 24, 32, 48, 64, 80, 96, 112, 128, 144, 160, 176, 192, 208, 224, 240, 256, 288, 320, 352, 384, 416,
   448, 480, 512, 576, 640, 704, 768, 896, 1024, 1152, 1280, 1408, 1536, 1792, 2048, 2304, 2688, 3072, 3200,
   3456, 4096, 4864, 5376, 6144, 6528, 6784, 6912, 8192, 9472, 9728, 10240, 10880, 12288, 13568, 14336,
   16384, 18432, 19072, 20480, 21760, 24576, 27264, 28672, 32768]
def roundupsize (size : Nat) : Option Nat :=
  if size ≤ 512 then sizeClasses.find? (· ≥ size)
  else if size + 8 ≤ 32768 then (sizeClasses.find? (· ≥ size + 8)).map (· - 8)
  else some ((size + 8191) / 8192 * 8192)          -- large object: whole pages
def nextCapLoop : Nat → Nat → Nat → Nat
  | 0, c, _ => c
  | k+1, c, newLen => let c' := c + (c + 768) / 4; if c' ≥ newLen then c' else nextCapLoop k c' newLen
def growCap (oldCap newLen : Nat) : Option Nat :=
  let nc := if newLen > 2 * oldCap then newLen else if oldCap < 256 then 2 * oldCap else nextCapLoop 64 oldCap newLen
  (roundupsize (nc * 16)).map (· / 16)

def getBacking (r : Nat) : M (List Val) := do return (← get).lists.getD r []
def setBacking (r : Nat) (b : List Val) : M Unit := modify fun s => { s with lists := s.lists.setIfInBounds r b }
def newBacking (b : List Val) : M Nat := do
  let s ← get; set { s with lists := s.lists.push b }; pure s.lists.size
/-- the elements of a slice -/
def getList (r len : Nat) : M (List Val) := do return (← getBacking r).take len
def newMap (kvs : List (Val × Val)) : M Val := do
  let s ← get; set { s with maps := s.maps.push kvs }; pure (.map s.maps.size)
def getMap (r : Nat) : M (List (Val × Val)) := do return (← get).maps.getD r []
def setMap (r : Nat) (kvs : List (Val × Val)) : M Unit := modify fun s => { s with maps := s.maps.setIfInBounds r kvs }

/-- `append(slice, vs...)` -/
def appendVals (r len : Nat) (vs : List Val) : M Val := do
  if vs.isEmpty then return .list r len
  let b ← getBacking r
  let newLen := len + vs.length
  if newLen ≤ b.length then
    setBacking r (b.take len ++ vs ++ b.drop newLen)
    pure (.list r newLen)
  else
    match growCap b.length newLen with
    | none => throw (Sig.unsupported "slice larger than the modelled size classes")
    | some c =>
      let r' ← newBacking (b.take len ++ vs ++ List.replicate (c - newLen) Val.null)
      pure (.list r' newLen)

/-- a list built by appending one element at a time to a nil slice (list literal) -/
def appendEach : List Val → Nat → Nat → M Val
  | [], r, l => pure (.list r l)
  | v :: vs, r, l => do
    match ← appendVals r l [v] with
    | .list r' l' => appendEach vs r' l'
    | x => pure x
def newListLit (vs : List Val) : M Val := appendEach vs 0 0
/-- `[]interface{}{a, b, …}` (capacity = length, never nil) -/
def newListExact (vs : List Val) : M Val := do
  let r ← newBacking vs; pure (.list r vs.length)

def keyEq (a b : Val) : Bool :=
  match a, b with
  | .null, .null => true | .bool x, .bool y => x == y | .num x, .num y => x == y
  | .str x, .str y => x == y | .func x, .func y => x == y | .builtin x, .builtin y => x == y | _, _ => false
def mapLookup (kvs : List (Val × Val)) (k : Val) : Option Val := (kvs.find? fun p => keyEq p.1 k).map (·.2)
def mapStore (kvs : List (Val × Val)) (k v : Val) : List (Val × Val) :=
  if (mapLookup kvs k).isSome then kvs.map fun p => if keyEq p.1 k then (k, v) else p else kvs ++ [(k, v)]

/-- valuesEqual of rt_boolean.go: Go `==` on comparable values, reflect.DeepEqual on two lists / two maps -/
def deepEq : Nat → Val → Val → M Bool
  | 0, _, _ => throw Sig.fuel
  | f+1, a, b =>
    match a, b with
    | .null, .null => pure true
    | .bool x, .bool y => pure (x == y)
    | .num x, .num y => pure (x == y)
    | .str x, .str y => pure (x == y)
    | .func x, .func y => if x == y then pure true else throw (Sig.unsupported "deep comparison of two functions")
    | .opaque w, _ => throw (Sig.unsupported s!"opaque value {w}")
    | _, .opaque w => throw (Sig.unsupported s!"opaque value {w}")
    | .list r1 l1, .list r2 l2 => do
      if (r1 == 0) != (r2 == 0) then return false          -- nil vs non-nil slice
      if l1 != l2 then return false
      if r1 == r2 then return true
      let xs ← getList r1 l1
      let ys ← getList r2 l2
      let mut eq := true
      for (x, y) in xs.zip ys do
        if eq then
          if !(← deepEq f x y) then eq := false
      pure eq
    | .map r1, .map r2 => do
      let m1 ← getMap r1
      let m2 ← getMap r2
      if m1.length != m2.length then return false
      if r1 == r2 then return true
      let mut eq := true
      for (k, x) in m1 do
        if eq then
          match mapLookup m2 k with
          | none => eq := false
          | some y => if !(← deepEq f x y) then eq := false
      pure eq
    | _, _ => pure false

/-- top level of valuesEqual: functions compare by identity -/
def goEq (a b : Val) : M Bool :=
  match a, b with
  | .func x, .func y => pure (x == y)
  | .builtin x, .builtin y => pure (x == y)
  | _, _ => deepEq 200 a b

/-! ### scopes -/
def newScope (name : String) (parent : Option Nat := none) : M Nat := do
  let s ← get
  set { s with scopes := s.scopes.push { name := name, parent := parent, children := [], vars := [] } }
  pure s.scopes.size
def getScope (i : Nat) : M Scope := do return (← get).scopes.getD i default
def setScope (i : Nat) (sc : Scope) : M Unit := modify fun s => { s with scopes := s.scopes.setIfInBounds i sc }

def newChild (parent : Nat) (name : String) : M Nat := do
  let p ← getScope parent
  let s ← get
  match p.children.find? fun c => (s.scopes.getD c default).name == name with
  | some c => pure c
  | none =>
    let c ← newScope name (some parent)
    setScope parent { p with children := p.children ++ [c] }
    pure c

def scopeFor : Nat → Nat → String → M (Option Nat)
  | 0, _, _ => throw Sig.fuel
  | f+1, sc, v => do
    let s ← getScope sc
    if (s.vars.find? (·.1 == v)).isSome then pure (some sc)
    else match s.parent with
      | some p => scopeFor f p v
      | none => pure none

def splitDots (s : List Nat) : List (List Nat) :=
  let rec go : List Nat → List Nat → List (List Nat)
    | [], acc => [acc.reverse]
    | c :: cs, acc => if c = 46 then acc.reverse :: go cs [] else go cs (c :: acc)
  go s []

/-- strconv.Atoi on a byte string (decimal, optional sign) -/
def atoi (s : List Nat) : Option Int :=
  let (neg, ds) := match s with
    | 45 :: r => (true, r) | 43 :: r => (false, r) | r => (false, r)
  if ds.isEmpty || !(ds.all fun c => 48 ≤ c && c ≤ 57) then none
  else
    let n : Nat := ds.foldl (fun a c => a * 10 + (c - 48)) 0
    -- int is 64 bit: a value outside [-2^63, 2^63) is a range error (the segment is then not a number)
    if (neg && n > 9223372036854775808) || (!neg && n > 9223372036854775807) then none
    else some (if neg then -(n : Int) else (n : Int))

/-- map lookup of a path segment: the number key first, then the string key -/
def mapFieldLookup (kvs : List (Val × Val)) (fld : List Nat) : Option Val :=
  let byNum := match atoi fld with
    | some i => mapLookup kvs (.num (Float.ofInt i))
    | none => none
  match byNum with
  | some v => some v
  | none => mapLookup kvs (.str fld)

/-- list index of a path segment (negative counts from the end); the Go errors are plain errors -/
def listIndex (fld : List Nat) (len : Nat) : M Nat :=
  match atoi fld with
  | some i =>
    let i := if i < 0 then i + len else i
    if 0 ≤ i && i < (len : Int) then pure i.toNat
    else throw (plain "Out of bounds access to list")
  | none => throw (plain "List needs a number index")

/-- getValue.containerAccess -/
def containerGet : Nat → List (List Nat) → Val → M (Val × Bool)
  | 0, _, _ => throw Sig.fuel
  | _, [], c => pure (c, true)
  | f+1, fld :: rest, c => do
    let ret ← (match c with
      | .map r => do pure ((mapFieldLookup (← getMap r) fld).getD Val.null)
      | .list r l => do
        let i ← listIndex fld l
        pure ((← getBacking r).getD i Val.null)
      | _ => throw (plain "Variable is not a container"))
    if rest.isEmpty then
      pure (ret, match ret with | .null => false | _ => true)
    else containerGet f rest ret

def lookupVar (sc : Nat) (v : String) : M (Option Val) := do
  match ← scopeFor 10000 sc v with
  | some s => pure (some (((← getScope s).vars.find? (·.1 == v)).map (·.2) |>.getD Val.null))
  | none => pure none

def getValue (sc : Nat) (name : List Nat) : M (Val × Bool) := do
  match splitDots name with
  | [v] =>
    match ← lookupVar sc (bytesToString v) with
    | some x => pure (x, true)
    | none => pure (Val.null, false)
  | v :: rest =>
    match ← lookupVar sc (bytesToString v) with
    | some c => containerGet 10000 rest c
    | none => pure (Val.null, false)
  | [] => pure (Val.null, false)

def setVar (sc : Nat) (v : String) (x : Val) : M Unit := do
  let s ← getScope sc
  let vars := if (s.vars.find? (·.1 == v)).isSome then s.vars.map fun p => if p.1 == v then (v, x) else p else s.vars ++ [(v, x)]
  setScope sc { s with vars := vars }

/-- varsScope.containerAccess (write path): walks all but the last field -/
def containerWalk : Nat → List (List Nat) → Val → M Val
  | 0, _, _ => throw Sig.fuel
  | _, [], c => pure c
  | f+1, fld :: rest, c => do
    let nxt ← (match c with
      | .map r => do
        match mapFieldLookup (← getMap r) fld with
        | some v => pure v
        | none => throw (plain "Container field does not exist")
      | .list r l => do
        let i ← listIndex fld l
        pure ((← getBacking r).getD i Val.null)
      | _ => throw (plain "Variable is not a container"))
    -- Go: `if err == nil && len(fields) > 2 { recurse with fields[1:] }` – the last field is handled by the caller
    if rest.length > 1 then containerWalk f rest nxt else pure nxt

def setValue (sc : Nat) (name : List Nat) (x : Val) : M Unit := do
  let flds := splitDots name
  match flds with
  | [v] =>
    let v := bytesToString v
    match ← scopeFor 10000 sc v with
    | some s => setVar s v x
    | none => setVar sc v x
  | v :: rest =>
    -- `container, ok, _ := s.getValue(cFields[0])`
    match ← lookupVar sc (bytesToString v) with
    | none => throw (plain "Variable is not a container")
    | some c =>
      let container ← (if flds.length > 2 then containerWalk 10000 rest c else pure c)
      let last := rest.getLast!
      match container with
      | .null => pure ()            -- `container != nil` guard: silently nothing
      | .map r =>
        let kvs ← getMap r
        -- an existing number key is preferred, otherwise the string key
        let key : Val := match atoi last with
          | some i => if (mapLookup kvs (.num (Float.ofInt i))).isSome then .num (Float.ofInt i) else .str last
          | none => .str last
        setMap r (mapStore kvs key x)
      | .list r l =>
        let i ← listIndex last l
        setBacking r ((← getBacking r).set i x)
      | _ => throw (plain "Variable is not a container")
  | [] => pure ()

def setLocalValue (sc : Nat) (name : List Nat) (x : Val) : M Unit := do
  let v := bytesToString ((splitDots name).headD [])
  setVar sc v Val.null
  setValue sc name x

def scopeName (n : Node) : M String := do
  let t ← tokOf n
  pure s!"block: {n.name} (Line:{t.line} Pos:{t.col})"

def truthy : Val → Bool
  | .null => false | .bool false => false | _ => true      -- the number 0 is truthy (compared with an int 0)

def numberOf (t : Tok) : M Float :=
  -- strconv.ParseFloat of the token text (validated by the lexer's grammar)
  let ds := t.val
  let isD (c : Nat) : Bool := 48 ≤ c && c ≤ 57
  let ip := ds.takeWhile isD
  let r := ds.dropWhile isD
  let (fp, r) := match r with
    | 46 :: r => (r.takeWhile isD, r.dropWhile isD)
    | r => ([], r)
  let ex := match r with
    | 101 :: 43 :: e => e.foldl (fun a c => a * 10 + (c - 48)) 0
    | _ => 0
  let m : Nat := (ip ++ fp).foldl (fun a c => a * 10 + (c - 48)) 0
  if ex ≥ fp.length then pure (Float.ofScientific m false (ex - fp.length))
  else pure (Float.ofScientific m true (fp.length - ex))

/-- executeFunction's wrapping of non-runtime errors (the three iteration texts keep their meaning) -/
def wrapCallErr (node : Node) (s : Sig) : Sig :=
  match s with
  | .plainErr m => if m == tBreak || m == tContinue || m == tIsIter then rtErr m node else rtErr "Runtime error" node
  | s => s

/-- run `m` with a fresh instance-state map -/
def withFreshIs {α : Type} (m : M α) : M α := do
  let s ← get
  let old := s.curIs
  set { s with isStore := s.isStore.push [], curIs := s.isStore.size }
  let r ← attemptE m
  modify fun s => { s with curIs := old }
  match r with
  | .ok v => pure v
  | .error e => throw e

def knownNodes : List String :=
  ["string","number","identifier","statements","funccall","compaccess","list","map","params","guard",
   ">=","<=","!=","==",">","<","kvp","preset","plus","minus","times","div","modint","divint",":=","let",
   "import","as","sink","kindmatch","scopematch","statematch","priority","suppresses","function","return",
   "or","and","not","like","in","hasprefix","hassuffix","notin","false","true","null","if","loop","break",
   "continue","try","except","otherwise","finally","mutex"]

/-- Validate(): children first, then the node's own checks; first error wins -/
partial def validate (n : Node) : Except Sig Unit := do
  for c in n.children do
    match c with
    | some c => validate c
    | none => throw Sig.panic
  if !(knownNodes.contains n.name) then throw (rtErr "Invalid construct" n)
  match n.name with
  | ":=" =>
    let l0 ← (match n.children[0]? with | some (some x) => pure x | _ => throw Sig.panic)
    let l ← (if l0.name == "let" then (match l0.children[0]? with | some (some x) => pure x | _ => throw Sig.panic) else pure l0)
    if l.name == "identifier" then pure ()
    else if l.name == "list" then
      for c in l.children do
        match c with
        | some c => if c.name != "identifier" then throw (rtErr "Cannot access variable" n)
        | none => throw Sig.panic
    else throw (rtErr "Cannot access variable" n)
  | "let" =>
    let l ← (match n.children[0]? with | some (some x) => pure x | _ => throw Sig.panic)
    if l.name == "identifier" then pure ()
    else if l.name == "list" then
      for c in l.children do
        match c with
        | some c => if c.name != "identifier" then throw (rtErr "Invalid construct" n)
        | none => throw Sig.panic
    else throw (rtErr "Invalid construct" n)
  | "loop" =>
    let c0 ← (match n.children[0]? with | some (some x) => pure x | _ => throw Sig.panic)
    if c0.name == "in" then
      let iv ← (match c0.children[0]? with | some (some x) => pure x | _ => throw Sig.panic)
      if iv.name == "identifier" then
        if !iv.children.isEmpty then throw (rtErr "Invalid construct" n)
      else if iv.name == "list" then
        for c in iv.children do
          match c with
          | some c => if c.name != "identifier" || !c.children.isEmpty then throw (rtErr "Invalid construct" n)
          | none => throw Sig.panic
  | "sink" | "import" | "mutex" | "like" => throw (Sig.unsupported s!"node {n.name}")
  | _ => pure ()

/-! ### canonical text of a value (marker log, outcome) -/
def hexNat16 (n : Nat) : String :=
  String.ofList ((List.range 16).reverse.map fun i => hexDigitC ((n / 16 ^ i) % 16))

def canonVal (st : St) : Nat → Val → String
  | 0, _ => "DEEP"
  | _, .null => "N" | _, .bool b => if b then "T" else "F"
  | _, .num f => if f.isNaN then "nNaN" else "n" ++ hexNat16 f.toBits.toNat
  | _, .str s => "s" ++ hexOf s
  | d+1, .list r l => "[" ++ " ".intercalate (((st.lists.getD r []).take l).map (canonVal st d)) ++ "]"
  | d+1, .map r =>
    let items := (st.maps.getD r []).map fun (k, v) => canonVal st d k ++ ":" ++ canonVal st d v
    "{" ++ " ".intercalate (items.toArray.qsort (· < ·)).toList ++ "}"
  | _, .func _ => "func" | _, .builtin _ => "func"
  | _, .opaque w => "?" ++ w

def canonDepth : Nat := 7

/-- json-ish text used by log/error/debug for non-string arguments (stringutil.ConvertToPrettyString) -/
def prettyArg (v : Val) : M (List Nat) :=
  match v with
  | .str s => pure s
  | .null => pure (str "null")
  | .bool true => pure (str "true") | .bool false => pure (str "false")
  | .num f => if isIntegral f && f.abs < 1e15 then sprint v else throw (Sig.unsupported "log of a non-integral number")
  | _ => throw (Sig.unsupported "log of a container")

/-- `%#v` for the values this model supports (builtin `type`) -/
def goSyntax : Nat → Val → M (List Nat)
  | 0, _ => throw Sig.fuel
  | f+1, v =>
    match v with
    | .null => pure (str "interface {}(nil)")
    | .bool true => pure (str "true") | .bool false => pure (str "false")
    | .num x => if isIntegral x && x.abs < 1e15 then sprint v else throw (Sig.unsupported "type of a non-integral number")
    | .str s =>
      if s.all fun c => 32 ≤ c && c < 127 && c != 34 && c != 92 then pure ([34] ++ s ++ [34])
      else throw (Sig.unsupported "type of a string that needs quoting")
    | .list r l => do
      if r == 0 then return str "[]interface {}(nil)"
      let xs ← getList r l
      let parts ← xs.mapM fun x => do
        match x with
        | .null => pure (str "interface {}(nil)")
        | _ => goSyntax f x
      pure (str "[]interface {}{" ++ (str ", ").intercalate parts ++ [125])
    | _ => throw (Sig.unsupported "type of a map or function")

def segIdx (pat : List Nat) (l : List Nat) : Option Nat :=
  (List.range (l.length + 1)).find? fun i => pat.isPrefixOf (l.drop i)

/-- int(float64) for the values where Go's conversion is defined -/
def goInt (x : Float) : M Int :=
  if x.isNaN || x.abs ≥ 9e18 then throw (Sig.unsupported "int conversion out of range")
  else pure x.toInt64.toInt

/-- iterator state of a `for … in` loop -/
inductive IterSt where
  | reeval                                   -- iterator function (range): evaluate the expression again
  | list (r l i : Nat)                       -- slice header captured at loop start, next index
  | map (r : Nat) (keys : List Val)          -- remaining keys (sorted at loop start), values read live
  | single (v : Val) (done : Bool)

/-- setting the loop variable(s) for one step; every failure is a "Runtime error" at the loop node -/
def bindLoopVars (ls : Nat) (n : Node) (vars : List (List Nat)) (item : Val) : M Unit := do
  let wrap (m : M Unit) : M Unit := do
    match ← attemptE m with
    | .ok _ => pure ()
    | .error e => if e.isFatal then throw e else throw (rtErr "Runtime error" n)
  match vars with
  | [v] => wrap (setValue ls v item)
  | vs =>
    match item with
    | .list r l =>
      let xs ← getList r l
      if xs.length != vs.length then throw (rtErr "Runtime error" n)
      for (v, x) in vs.zip xs do wrap (setValue ls v x)
    | _ => throw (rtErr "Runtime error" n)

/-- the error object handed to `except … as e` / `except e`: only `type`, `detail` and `data` of a raised
    error are modelled, the other entries hold values this model does not know -/
def errObject : Sig → M Val
  | .err re wd =>
    newMap ([(.str (str "type"), .str (str re.type)), (.str (str "error"), .opaque "error text"),
             (.str (str "detail"), match wd with | some (d, _) => .str d | none => .opaque "detail text"),
             (.str (str "pos"), .opaque "int"), (.str (str "line"), .opaque "int"),
             (.str (str "source"), .opaque "source name"), (.str (str "trace"), .opaque "trace")] ++
            (match wd with | some (_, d) => [(.str (str "data"), d)] | none => []))
  | .iter re _ =>
    newMap [(.str (str "type"), .str (str re.type)), (.str (str "error"), .opaque "error text"),
            (.str (str "detail"), .opaque "detail text"),
            (.str (str "pos"), .opaque "int"), (.str (str "line"), .opaque "int"),
            (.str (str "source"), .opaque "source name"), (.str (str "trace"), .opaque "trace")]
  | _ => newMap [(.str (str "type"), .str (str "UnexpectedError")), (.str (str "error"), .opaque "error text")]

/-! ### builtins on the heap, call frames, objects — outside the mutual block; `runBuiltin` / `runFunction`
     call them (the C05 theorems are about these functions) -/

def thisName : List Nat := [116, 104, 105, 115]          -- "this"
def superName : List Nat := [115, 117, 112, 101, 114]    -- "super"
def initName : List Nat := [105, 110, 105, 116]          -- "init"

/-- AssertNumParam for the values this model supports -/
def numParamB (i : Nat) (v : Val) : M Float := match v with
  | .num x => pure x
  | .str _ => throw (Sig.unsupported "number parameter given as string")
  | .opaque w => throw (Sig.unsupported s!"opaque value {w}")
  | _ => throw (plain s!"Parameter {i} should be a number")

/-- lenFunc -/
def lenB : List Val → M Val
  | .list _ l :: _ => pure (.num (Float.ofNat l))
  | .map r :: _ => do pure (.num (Float.ofNat (← getMap r).length))
  | _ => throw (plain "Need a list or a map as first parameter")

/-- del(list, i) after the repair: `make([]interface{}, 0, len-1)` filled with `argList[:i]` and `argList[i+1:]` —
    a NEW list; the argument (and every list sharing its memory) is unchanged -/
def delAt (r l i : Nat) : M Val := do
  let xs ← getList r l
  newListExact (xs.take i ++ xs.drop (i + 1))

/-- the key `del(map, k)` removes: an existing number key if the string form of `k` is a number (as reads and
    writes choose it), otherwise the string form -/
def delKeyOf (kvs : List (Val × Val)) (key : List Nat) : Val :=
  match atoi key with
  | some i => if (mapLookup kvs (.num (Float.ofInt i))).isSome then .num (Float.ofInt i) else .str key
  | none => .str key

/-- delFunc -/
def delB : List Val → M Val
  | [.list r l, k] => do
    let x ← numParamB 2 k
    let i ← goInt x
    if i < 0 || i ≥ (l : Int) then throw (plain "Out of bounds access to list")
    delAt r l i.toNat
  | [.map r, k] => do
    let key ← sprint k
    let kvs ← getMap r
    setMap r (kvs.filter fun p => !(keyEq p.1 (delKeyOf kvs key)))
    pure (.map r)
  | _ => throw (plain "Need a list or a map as first parameter and an index or key as second parameter")

/-- add(list, v, i) after the repair: a NEW list of capacity len+1 holding `argList[:i]`, `v`, `argList[i:]` -/
def insertAt (r l : Nat) (v : Val) (i : Nat) : M Val := do
  let xs ← getList r l
  newListExact (xs.take i ++ [v] ++ xs.drop i)

/-- add(list, v) after the repair: a NEW list of capacity len+1 holding the old elements and `v` -/
def appendNew (r l : Nat) (v : Val) : M Val := do
  let xs ← getList r l
  newListExact (xs ++ [v])

/-- addFunc -/
def addB : List Val → M Val
  | .list r l :: v :: rest => do
    match rest with
    | [ix] =>
      let x ← numParamB 3 ix
      let i ← goInt x
      if i < 0 || i > (l : Int) then throw (plain "Out of bounds access to list")
      -- int(index) of a non-integral index differs from i only in the fraction
      if !(isIntegral x) then throw (Sig.unsupported "add with a non-integral index")
      insertAt r l v i.toNat
    | _ => appendNew r l v
  | _ :: _ :: _ => throw (plain "Parameter 1 should be a list")
  | _ => throw (plain "Need a list as first parameter and a value as second parameter")

/-- the loop of concatFunc: `cur = append(cur, list...)` for every argument -/
def concatGo : List Val → Val → M Val
  | [], cur => pure cur
  | a :: rest, cur =>
    match a, cur with
    | .list r l, .list cr cl => do
      let cur' ← appendVals cr cl (← getList r l)
      concatGo rest cur'
    | _, _ => throw (plain "Parameter 1 should be a list")

/-- concatFunc -/
def concatB (args : List Val) : M Val := do
  if args.length < 2 then throw (plain "Need at least two lists as parameters")
  let r0 ← newBacking []
  concatGo args (.list r0 0)

/-- one parameter of function.Run: position `i` of the argument list, else the default (evaluated by
    `evalDefault`: the evaluator passes evaluation in the CALLER's scope), else null; written with SetValue
    into the frame, which has no parent yet -/
def bindParamNode (evalDefault : Node → M Val) (fvs : Nat) (p : Node) (i : Nat) (args : List Val) : M Unit := do
  if p.name == "identifier" then
    setValue fvs (← tokOf p).val (args.getD i Val.null)
  else if p.name == "preset" then
    let nameTok ← tokOf (← child p 0)
    let v ← (if i < args.length then pure (args.getD i Val.null) else do let d ← child p 1; evalDefault d)
    setValue fvs nameTok.val v

/-- the parameter loop of function.Run -/
def bindParamNodes (evalDefault : Node → M Val) (fvs : Nat) : List (Option Node) → Nat → List Val → M Unit
  | [], _, _ => pure ()
  | none :: _, _, _ => throw Sig.panic
  | some p :: ps, i, args => do
    bindParamNode evalDefault fvs p i args
    bindParamNodes evalDefault fvs ps (i + 1) args

/-- `if f.this != nil { fvs.SetValue("this", f.this) }` (same for super) -/
def bindContext (fvs : Nat) (name : List Nat) : Option Val → M Unit
  | some t => setValue fvs name t
  | none => pure ()

/-- function.Run up to the evaluation of the body: a NEW root scope, `this` / `super` (if bound), the
    parameters, and only then the link to the declaration scope; returns the frame -/
def buildFrame (evalDefault : Node → M Val) (fr : FuncRec) (params : List (Option Node)) (args : List Val) : M Nat := do
  let fvs ← newScope s!"func: {fr.name}"
  bindContext fvs thisName fr.this
  bindContext fvs superName fr.super
  bindParamNodes evalDefault fvs params 0 args
  let s ← getScope fvs
  setScope fvs { s with parent := some fr.declScope }
  pure fvs

/-- `&function{f.name, nil, obj, f.declaration, f.declarationVS}` (+ super): a NEW function value, bound to the object -/
def bindToObject (obj : Nat) (sup : Option Val) (id : Nat) : M Val := do
  let fr ← (match (← get).funcs[id]? with
    | some fr => pure fr
    | none => throw (Sig.unsupported "dangling function id"))
  let s ← get
  set { s with funcs := s.funcs.push { fr with this := some (.map obj), super := sup } }
  pure (Val.func s.funcs.size)

/-- one property of the template goes into the object: a function value as a NEW function bound to the object
    (`this`), the one under "init" also with the list of the super templates' init functions (`super`, absent
    when nothing was collected); returns the stored value -/
def copyProp (obj : Nat) (initSuper : List Val) (k v : Val) : M Val :=
  match v with
  | .func id => do
    let sup ← (if keyEq k (.str initName) && !initSuper.isEmpty then do pure (some (← newListLit initSuper)) else pure none)
    let nf ← bindToObject obj sup id
    setMap obj (mapStore (← getMap obj) k nf)
    pure nf
  | _ => do
    setMap obj (mapStore (← getMap obj) k v)
    pure v

def isFunc : Val → Bool
  | .func _ => true
  | _ => false

/-- the copy loop of addSuperClasses over the template's properties; remembers the bound "init" function -/
def copyProps (obj : Nat) (initSuper : List Val) : List (Val × Val) → Val → M Val
  | [], initFn => pure initFn
  | (k, v) :: rest, initFn => do
    let nv ← copyProp obj initSuper k v
    copyProps obj initSuper rest (if isFunc v && keyEq k (.str initName) then nv else initFn)

/-- the loop over the "super" list: `rec` adds one super template to the object and returns (its init or
    null, the Go error variable); elements that are not maps are skipped; every call overwrites the error -/
def superLoop (rec : Nat → M (Val × Option Sig)) : List Val → Option Sig → List Val → M (Option Sig × List Val)
  | [], err, acc => pure (err, acc)
  | .map sr :: rest, _, acc => do
    let (si, e) ← rec sr
    superLoop rec rest e (acc ++ [si])
  | _ :: rest, err, acc => superLoop rec rest err acc

/-- newFunc.addSuperClassesOnPath: a template that is already on the current `path` (it is, directly or through
    other templates, its own super template) is reported through the error variable and adds nothing; otherwise
    first the super templates (depth first, in list order, with this template on the path), then the template's
    own properties (`copyProps`).  Returns (init function of this template or null, the error variable of the Go
    code). -/
def addSuperClasses : Nat → Nat → List Nat → Nat → M (Val × Option Sig)
  | 0, _, _, _ => throw Sig.fuel
  | f+1, obj, path, tr =>
    if path.contains tr then pure (Val.null, some (plain "Super class hierarchy contains a cycle"))
    else do
      let tkvs ← getMap tr
      let (err, initSuper) ← (match mapLookup tkvs (.str superName) with
        | some (.list r l) => do superLoop (addSuperClasses f obj (tr :: path)) (← getList r l) none []
        | some _ => pure (some (plain "Property _super must be a list of super classes"), [])
        | none => pure (none, []))
      let initFn ← copyProps obj initSuper tkvs Val.null
      pure (initFn, err)

/-- newFunc.Run: a fresh object, `addSuperClasses`, then the `init` of the finished object runs ONCE through
    `runInit` with the remaining arguments (the evaluator passes: `function.Run` with a fresh empty root scope
    as the caller's scope and a fresh instance state); its error replaces the earlier one -/
def newB (runInit : Nat → List Val → M Val) : List Val → M Val
  | .map tr :: rest => do
    let obj ← newMap []
    let oref := match obj with | .map r => r | _ => 0
    let (_, err) ← addSuperClasses 200 oref [] tr
    let err ← (match mapLookup (← getMap oref) (.str initName) with
      | some (.func id) => do
        match ← attemptE (runInit id rest) with
        | .ok _ => pure none
        | .error e => if e.isFatal then throw e else pure (some e)
      | _ => pure err)
    match err with
    | some e => throw e
    | none => pure obj
  | _ :: _ => throw (plain "Parameter 1 should be a map")
  | [] => throw (plain "Need a map as first parameter")

mutual
def eval : Nat → Nat → Node → M Val          -- fuel, scope, node
  | 0, _, _ => throw Sig.fuel
  | f+1, sc, n => do
    match n.name with
    | "number" => do pure (.num (← numberOf (← tokOf n)))
    | "string" =>
      let t ← tokOf n
      if t.allowEscapes then do
        let r ← interpolate f sc n t.val
        pure (.str r)
      else pure (.str t.val)
    | "true" => pure (.bool true) | "false" => pure (.bool false) | "null" => pure .null
    | "list" =>
      let vs ← n.children.mapM fun c => do
        match c with | some c => eval f sc c | none => throw Sig.panic
      newListLit vs
    | "map" =>
      let mut kvs : List (Val × Val) := []
      for c in n.children do
        let kvp ← (match c with | some c => pure c | none => throw Sig.panic)
        if kvp.name != "kvp" || kvp.children.length != 2 then throw (rtErr "Invalid construct" kvp)
        let k ← eval f sc (← child kvp 0)
        if !(hashable k) then throw (rtErr "Invalid construct" (← child kvp 0))
        let v ← eval f sc (← child kvp 1)
        kvs := mapStore kvs k v
      newMap kvs
    | "plus" => if n.children.length == 1 then numVal f sc n id else numOp f sc n (fun a b => .num (a + b))
    | "minus" => if n.children.length == 1 then numVal f sc n (fun a => -a) else numOp f sc n (fun a b => .num (a - b))
    | "times" => numOp f sc n (fun a b => .num (a * b))
    | "div" => numOp f sc n (fun a b => .num (a / b))
    | "divint" => numOp f sc n (fun a b => .num (a / b).floor)
    | "modint" =>
      -- float64(int64(a) % int64(b)); out-of-range conversions are outside the model
      if n.children.length != 2 then throw Sig.panic
      let a ← eval f sc (← child n 0)
      let b ← eval f sc (← child n 1)
      match a, b with
      | .num x, .num y =>
        let xi ← goInt x
        let yi ← goInt y
        if yi = 0 then throw (rtErr "Runtime error" n) else pure (.num (Float.ofInt (xi.tmod yi)))
      | .num _, _ => throw (rtErr "Operand is not a number" (← child n 1))
      | _, _ => throw (rtErr "Operand is not a number" (← child n 0))
    | ">=" => cmpOp f sc n (fun a b => a ≥ b) (fun a b => !bytesLt a b)
    | ">" => cmpOp f sc n (fun a b => a > b) (fun a b => bytesLt b a)
    | "<=" => cmpOp f sc n (fun a b => a ≤ b) (fun a b => !bytesLt b a)
    | "<" => cmpOp f sc n (fun a b => a < b) (fun a b => bytesLt a b)
    | "==" => do
      if n.children.length != 2 then throw Sig.panic
      let a ← eval f sc (← child n 0); let b ← eval f sc (← child n 1)
      pure (.bool (← goEq a b))
    | "!=" => do
      if n.children.length != 2 then throw Sig.panic
      let a ← eval f sc (← child n 0); let b ← eval f sc (← child n 1)
      pure (.bool !(← goEq a b))
    | "and" => boolOp f sc n (fun a b => a && b)
    | "or" => boolOp f sc n (fun a b => a || b)
    | "not" =>
      if n.children.length != 1 then throw Sig.panic
      let v ← eval f sc (← child n 0)
      match v with
      | .bool b => pure (.bool !b)
      | _ => throw (rtErr "Operand is not a boolean" (← child n 0))
    | "in" => inOp f sc n
    | "notin" => do
      match ← inOp f sc n with
      | .bool b => pure (.bool !b)
      | v => pure v
    | "hasprefix" => strOp f sc n (fun a b => b.isPrefixOf a)
    | "hassuffix" => strOp f sc n (fun a b => b.reverse.isPrefixOf a.reverse)
    | "identifier" => evalIdent f sc n
    | "statements" =>
      let mut res := Val.null
      for c in n.children do
        match c with
        | some c => res ← eval f sc c
        | none => throw Sig.panic
      pure res
    | ":=" => evalAssign f sc n
    | "let" =>
      let lv ← child n 0
      if lv.name == "identifier" then
        if lv.children.isEmpty then setLocalValue sc (← tokOf lv).val Val.null
        else throw (rtErr "Invalid construct" n)
      else if lv.name == "list" then
        for c in lv.children do
          match c with
          | some c => if c.children.isEmpty then setLocalValue sc (← tokOf c).val Val.null else throw (rtErr "Invalid construct" n)
          | none => throw Sig.panic
      eval f sc lv
    | "if" =>
      let bs ← newChild sc (← scopeName n)
      ifChain (← ifBranches f bs n.children)
    | "guard" =>
      let v ← eval f sc (← child n 0)
      pure (.bool (truthy v))
    | "loop" => evalLoop f sc n
    | "break" => throw (rtErr tBreak n)
    | "continue" => throw (rtErr tContinue n)
    | "return" =>
      let v ← if n.children.isEmpty then pure Val.null else eval f sc (← child n 0)
      match rtErr tReturn n with
      | .err e _ => throw (Sig.ret e v)
      | s => throw s
    | "function" =>
      let c0 ← child n 0
      let c0tok ← (if c0.name == "identifier" then do pure (← tokOf c0).val else pure [])
      let name := bytesToString c0tok
      let s ← get
      set { s with funcs := s.funcs.push { name := name, decl := n, declScope := sc } }
      let fv := Val.func s.funcs.size
      if name != "" then
        -- `vs.SetValue(name, fc)`: the error is dropped
        match ← attemptE (setValue sc c0tok fv) with
        | .error e => if e.isFatal then throw e
        | .ok _ => pure ()
      pure fv
    | "try" => evalTry f sc n
    | "kvp" | "preset" | "params" | "funccall" | "compaccess" | "as" | "except" | "otherwise" | "finally" => pure Val.null
    | _ => throw (Sig.unsupported s!"node {n.name}")

/-- the (guard, block) pairs of an `if` node as computations -/
def ifBranches : Nat → Nat → List (Option Node) → M (List (M Val × M Val))
  | 0, _, _ => throw Sig.fuel
  | f+1, sc, some g :: some body :: rest => do
    pure ((eval f sc g, eval f sc body) :: (← ifBranches f sc rest))
  | _, _, [] => pure []
  | _, _, _ => throw Sig.panic

/-- stringValueRuntime.Eval: one pass over the literal; every `{{code}}` (first `}}` after the `{{`)
    is parsed, validated and evaluated in a child scope; substituted text is not scanned again -/
def interpolate : Nat → Nat → Node → List Nat → M (List Nat)
  | 0, _, _, _ => throw Sig.fuel
  | f+1, sc, n, rest => do
    match segIdx [123, 123] rest with
    | none => pure rest
    | some s0 =>
      let after := rest.drop (s0 + 2)
      match segIdx [125, 125] after with
      | none => pure rest
      | some e =>
        let code := after.take e
        let repl ← (match (← get).interp.find? (·.1 == code) with
          | none => throw (Sig.unsupported "embedded expression missing from the payload table")
          | some (_, .text r) => pure r
          | some (_, .ast ast) => do
            let cs ← newChild sc (← scopeName n)
            match ← attemptE (withFreshIs (eval f cs ast)) with
            | .ok v => sprint v
            | .error e =>
              if e.isFatal then throw e
              else throw (Sig.unsupported "error text inside interpolation"))
        let tail ← interpolate f sc n (after.drop (e + 2))
        pure (rest.take s0 ++ repl ++ tail)

def numVal : Nat → Nat → Node → (Float → Float) → M Val
  | 0, _, _, _ => throw Sig.fuel
  | f+1, sc, n, op => do
    if n.children.length != 1 then throw Sig.panic
    let v ← eval f sc (← child n 0)
    match v with
    | .num x => pure (.num (op x))
    | _ => throw (rtErr "Operand is not a number" (← child n 0))

def numOp : Nat → Nat → Node → (Float → Float → Val) → M Val
  | 0, _, _, _ => throw Sig.fuel
  | f+1, sc, n, op => do
    if n.children.length != 2 then throw Sig.panic
    let a ← eval f sc (← child n 0)
    let b ← eval f sc (← child n 1)
    match a, b with
    | .num x, .num y => pure (op x y)
    | .num _, _ => throw (rtErr "Operand is not a number" (← child n 1))
    | _, _ => throw (rtErr "Operand is not a number" (← child n 0))

/-- numOp, and on ANY error strOp (which evaluates the operands again) -/
def cmpOp : Nat → Nat → Node → (Float → Float → Bool) → (List Nat → List Nat → Bool) → M Val
  | 0, _, _, _, _ => throw Sig.fuel
  | f+1, sc, n, nop, sop => do
    match ← attemptE (numOp f sc n (fun a b => .bool (nop a b))) with
    | .ok v => pure v
    | .error e =>
      if e.isFatal then throw e
      let a ← eval f sc (← child n 0)
      let b ← eval f sc (← child n 1)
      let sa ← sprint a
      let sb ← sprint b
      pure (.bool (sop sa sb))

def strOp : Nat → Nat → Node → (List Nat → List Nat → Bool) → M Val
  | 0, _, _, _ => throw Sig.fuel
  | f+1, sc, n, op => do
    if n.children.length != 2 then throw Sig.panic
    let a ← eval f sc (← child n 0)
    let b ← eval f sc (← child n 1)
    pure (.bool (op (← sprint a) (← sprint b)))

def boolOp : Nat → Nat → Node → (Bool → Bool → Bool) → M Val
  | 0, _, _, _ => throw Sig.fuel
  | f+1, sc, n, op => do
    if n.children.length != 2 then throw Sig.panic
    let a ← eval f sc (← child n 0)
    let b ← eval f sc (← child n 1)
    match a, b with
    | .bool x, .bool y => pure (.bool (op x y))
    | .bool _, _ => throw (rtErr "Operand is not a boolean" (← child n 0))    -- positioned at child 0 (sic)
    | _, _ => throw (rtErr "Operand is not a boolean" (← child n 0))

def inOp : Nat → Nat → Node → M Val
  | 0, _, _ => throw Sig.fuel
  | f+1, sc, n => do
    if n.children.length != 2 then throw Sig.panic
    let a ← eval f sc (← child n 0)
    let b ← eval f sc (← child n 1)
    match b with
    | .list r l =>
      let vs ← getList r l
      let mut found := false
      for v in vs do
        if !found then
          if ← goEq a v then found := true
      pure (.bool found)
    | _ => throw (rtErr "Operand is not a list" (← child n 0))

def evalAssign : Nat → Nat → Node → M Val
  | 0, _, _ => throw Sig.fuel
  | f+1, sc, n => do
    -- Validate
    let lhs0 ← child n 0
    let lhs ← if lhs0.name == "let" then child lhs0 0 else pure lhs0
    let targets : List Node ← (
      if lhs.name == "identifier" then pure [lhs]
      else if lhs.name == "list" then
        lhs.children.mapM fun c => match c with
          | some c => if c.name == "identifier" then pure c else throw (rtErr "Cannot access variable" n)
          | none => throw Sig.panic
      else throw (rtErr "Cannot access variable" n))
    let _ ← eval f sc lhs0
    let v ← eval f sc (← child n 1)
    -- Go branches on `len(rt.leftSide) == 1`: `[a] := x` assigns x itself
    if targets.length == 1 then
      match targets with
      | [t] => identSet f sc t v
      | _ => pure ()
    else
      match v with
      | .list r l =>
        let vs ← getList r l
        if vs.length != targets.length then throw (rtErr "Invalid state" n)
        for (t, x) in targets.zip vs do
          match ← attemptE (identSet f sc t x) with
          | .ok _ => pure ()
          | .error e => if e.isFatal then throw e else throw (rtErr "Cannot access variable" n)
      | _ => throw (rtErr "Invalid state" n)
    pure Val.null

/-- identifierRuntime.Set -/
def identSet : Nat → Nat → Node → Val → M Unit
  | 0, _, _, _ => throw Sig.fuel
  | f+1, sc, n, v => do
    let t ← tokOf n
    if n.children.isEmpty then setValue sc t.val v
    else
      let (fn, path) ← accessString f sc n t.val
      -- a call inside the path is the ErrInvalidConstruct error of buildAccessString
      match fn with
      | some cn => throw (rtErr "Invalid construct" cn)
      | none => setValue sc path v

/-- buildAccessString: (node where a call was found, path) -/
def accessString : Nat → Nat → Node → List Nat → M (Option Node × List Nat)
  | 0, _, _, _ => throw Sig.fuel
  | f+1, sc, n, pre => do
    let mut res := pre
    let kids := n.children
    let mut i := 0
    for c in kids do
      let c ← (match c with | some c => pure c | none => throw Sig.panic)
      if c.name == "compaccess" then
        let v ← eval f sc (← child c 0)
        res := res ++ [46] ++ (← sprint v)
        match kids[i+1]? with
        | some (some nx) => if nx.name == "funccall" then return (some n, res)   -- `a[i](args)`: ErrInvalidConstruct at this node
        | _ => pure ()
      else if c.name == "identifier" then
        res := res ++ [46] ++ (← tokOf c).val
        match c.children.head? with
        | some (some g) =>
          if g.name == "funccall" then return (some c, res)
          else
            let (fn, r) ← accessString f sc c res
            res := r
            if fn.isSome then return (fn, res)
        | some none => throw Sig.panic
        | none => pure ()
      i := i + 1
    pure (none, res)

def evalIdent : Nat → Nat → Node → M Val
  | 0, _, _ => throw Sig.fuel
  | f+1, sc, n => do
    let t ← tokOf n
    if n.children.isEmpty then
      pure (← getValue sc t.val).1
    else
      let (callNode, path) ← accessString f sc n t.val
      if (splitDots path).head? == some (str "math") then throw (Sig.unsupported "stdlib package math")
      match callNode with
      | some cn =>
        -- a.b(args): only without a further chain in this model
        let after := (cn.children.dropWhile fun c => match c with | some c => c.name != "funccall" | none => true).drop 1
        if !after.isEmpty then throw (Sig.unsupported "chain after call")
        let (fv, _) ← getValue sc path
        callFunction f sc cn path fv
      | none =>
        let (v, _) ← getValue sc path
        let hasCall := n.children.any fun c => match c with | some c => c.name == "funccall" | none => false
        if hasCall then
          match n.children with
          | [some _] => callFunction f sc n path v
          | _ => throw (Sig.unsupported "chain after call")
        else pure v

/-- resolveFunction + executeFunction for the first funccall child of `node` -/
def callFunction : Nat → Nat → Node → List Nat → Val → M Val
  | 0, _, _, _, _ => throw Sig.fuel
  | f+1, sc, node, path, fv => do
    let fc ← (match node.children.find? fun c => match c with | some c => c.name == "funccall" | none => false with
      | some (some fc) => pure fc
      | _ => throw Sig.panic)
    let pathS := bytesToString path
    let isLog := pathS == "log" || pathS == "error" || pathS == "debug"
    let target : Option Val :=
      if isLog then some (.builtin pathS)
      else match fv with
        | .func _ => some fv
        | .builtin _ => some fv
        | _ =>
          if pathS == "x.mark" then some (.builtin pathS)
          else if ["len", "range", "raise", "add", "del", "concat", "type", "new"].contains pathS then some (.builtin pathS)
          else if ["now", "rand", "timestamp", "dumpenv", "doc", "sleep", "addEvent", "addEventAndWait",
                   "setCronTrigger", "setPulseTrigger"].contains pathS || (splitDots path).length > 1 then none
          else none
    if (["now", "rand", "timestamp", "dumpenv", "doc", "sleep", "addEvent", "addEventAndWait",
         "setCronTrigger", "setPulseTrigger"].contains pathS) && target.isNone then
      throw (Sig.unsupported s!"builtin {pathS}")
    match target with
    | none => throw (rtErr "Unknown construct" node)
    | some tv =>
      -- every argument is evaluated with a fresh instance-state map
      let args ← fc.children.mapM fun c => match c with
        | some c => withFreshIs (eval f sc c)
        | none => throw Sig.panic
      let r ← attemptE (match tv with
        | .func id => runFunction f sc id args
        | .builtin b => runBuiltin f sc node b args
        | _ => throw Sig.panic)
      match r with
      | .ok v => pure v
      | .error e => throw (wrapCallErr node e)

def runBuiltin : Nat → Nat → Node → String → List Val → M Val
  | 0, _, _, _, _ => throw Sig.fuel
  | f+1, _, node, b, args => do
    let numParam (i : Nat) (v : Val) : M Float := match v with
      | .num x => pure x
      | .str _ => throw (Sig.unsupported "number parameter given as string")
      | .opaque w => throw (Sig.unsupported s!"opaque value {w}")
      | _ => throw (plain s!"Parameter {i} should be a number")
    match b with
    | "log" | "error" | "debug" =>
      let parts ← args.mapM prettyArg
      let tag := if b == "log" then "l" else if b == "error" then "e" else "d"
      modify fun s => { s with log := s.log.push (tag ++ hexOf parts.flatten) }
      pure Val.null
    | "x.mark" =>
      let st ← get
      let txt := ",".intercalate (args.map (canonVal st canonDepth))
      modify fun s => { s with log := s.log.push ("m" ++ txt) }
      pure (args.headD Val.null)
    | "len" => lenB args
    | "type" =>
      match args with
      | [] => throw (plain "Need a value as first parameter")
      | a :: _ => do
        match a with
        | .null => pure (.str (str "<nil>"))
        | _ => pure (.str (← goSyntax f a))
    | "del" => delB args
    | "add" => addB args
    | "concat" => concatB args
    | "new" => newB (fun id rest => do
        let ivs ← newScope "newfunc"
        withFreshIs (runFunction f ivs id rest)) args
    | "raise" =>
      let ty ← (match args with
        | [] => pure "Runtime error"
        | a :: _ => do pure (bytesToString (← sprint a)))
      let detail ← (match args with
        | _ :: .null :: _ => pure []
        | _ :: d :: _ => sprint d
        | _ => pure [])
      let data := args.getD 2 Val.null
      match node.tok with
      | some t => throw (raiseSig ty detail data t.line t.col)
      | none => throw (raiseSig ty detail data 0 0)
    | "range" =>
      if args.isEmpty then throw (plain "Need at least an end range as first parameter")
      let t ← tokOf node
      let st ← get
      let states := st.isStore.getD st.curIs []
      let mkErr : RtErr := ⟨tIsIter, t.line, t.col⟩
      match states.find? fun r => r.line == t.line && r.col == t.col with
      | some r =>
        let states' := states.map fun q => if q.line == t.line && q.col == t.col then { q with cur := floatOps.add q.cur q.step } else q
        set { st with isStore := st.isStore.setIfInBounds st.curIs states' }
        if rangeDone floatOps r.fr r.to r.step r.cur then
          throw (plain tBreak)
        else throw (Sig.iter mkErr r.cur)
      | none =>
        let (fr, to, step) ← (match args with
          | [a] => do pure ((0 : Float), ← numParam 1 a, (1 : Float))
          | a :: b :: rest => do
            let fr ← numParam 1 a; let to ← numParam 2 b
            let st ← (match rest with | c :: _ => numParam 3 c | [] => pure 1)
            pure (fr, to, st)
          | [] => throw Sig.panic)
        set { st with isStore := st.isStore.setIfInBounds st.curIs (states ++ [({ line := t.line, col := t.col, fr := fr, to := to, step := step, cur := fr } : RangeSt)]) }
        throw (Sig.iter mkErr fr)
    | _ => throw (Sig.unsupported s!"builtin {b}")

/-- function.Run -/
def runFunction : Nat → Nat → Nat → List Val → M Val
  | 0, _, _, _ => throw Sig.fuel
  | f+1, callerSc, id, args => do
    let fr ← (match (← get).funcs[id]? with
      | some fr => pure fr
      | none => throw (Sig.unsupported "dangling function id"))
    let decl := fr.decl
    let c0 ← child decl 0
    let off := if c0.name == "identifier" then 1 else 0
    let params := (← child decl off).children
    let body ← child decl (off + 1)
    let fvs ← buildFrame (fun d => eval f callerSc d) fr params args
    callCore (withFreshIs (eval f fvs body))

/-- the iterator of a `for … in` loop -/
def iterNext : Nat → Nat → Node → Node → IterSt → M (Val × IterSt)
  | 0, _, _, _, _ => throw Sig.fuel
  | f+1, ls, loopNode, it, s => do
    match s with
    | .reeval =>
      -- iterator function: the iterable expression is evaluated again for every step
      match ← attemptE (eval f ls it) with
      | .ok v => pure (v, .reeval)
      | .error (Sig.iter e cur) =>
        -- Go takes the RESULT of evaluating the iterable together with the iterator signal: the current
        -- value when the iterable is the call of the iterator function itself, nil when the signal was
        -- raised deeper (`for i in r()` with `func r() { return range(1, 2) }`, `range(3) + 1`)
        match it.tok with
        | some t => if e.line == t.line && e.pos == t.col then pure (.num cur, .reeval) else pure (.null, .reeval)
        | none => pure (.null, .reeval)
      | .error e => throw e
    | .list r l i =>
      if i ≥ l then throw (rtErr tBreak loopNode)
      else pure ((← getBacking r).getD i Val.null, .list r l (i + 1))
    | .map r keys =>
      match keys with
      | [] => throw (rtErr tBreak loopNode)
      | k :: ks => do
        let v := (mapLookup (← getMap r) k).getD Val.null
        pure (← newListExact [k, v], .map r ks)
    | .single v done =>
      if done then throw (rtErr tBreak loopNode) else pure (v, .single v true)

def evalLoop : Nat → Nat → Node → M Val
  | 0, _, _ => throw Sig.fuel
  | f+1, sc, n => do
    let c0 ← child n 0
    -- Validate: loop variables
    let vars : List (List Nat) ← (
      if c0.name == "in" then do
        let iv ← child c0 0
        if iv.name == "identifier" then
          if !iv.children.isEmpty then throw (rtErr "Invalid construct" n) else pure [(← tokOf iv).val]
        else if iv.name == "list" then
          iv.children.mapM fun c => match c with
            | some c => do
              if c.name != "identifier" || !c.children.isEmpty then throw (rtErr "Invalid construct" n)
              pure (← tokOf c).val
            | none => throw Sig.panic
        else pure []
      else pure [])
    let ls ← newChild sc (← scopeName n)
    if n.children.length < 2 then throw Sig.panic
    let body ← child n 1
    if c0.name == "guard" then
      withFreshIs (guardLoop (eval f ls c0) (eval f ls body) f)
    else if c0.name == "in" then
      let it ← child c0 1
      withFreshIs (do
        -- getIterator
        let start : IterSt ← (do
          match ← attemptE (eval f ls it) with
          | .error (Sig.iter _ _) => pure IterSt.reeval
          | .error e =>
            -- the error is handed through together with a dummy iterator: the block never runs and
            -- the final "end of iteration" check swallows a `break` that leaked out of the expression
            if e.isBreak then pure (IterSt.single Val.null true) else throw e
          | .ok v =>
            match v with
            | .list r l => pure (IterSt.list r l 0)
            | .map r => do
              let kvs ← getMap r
              -- keys sorted by their string form
              let keyed ← kvs.mapM fun (k, _) => do pure (← sprint k, k)
              let sorted := sortBy (fun a b => bytesLt a.1 b.1) keyed
              let rec dup : List (List Nat × Val) → Bool
                | a :: b :: r => a.1 == b.1 || dup (b :: r)
                | _ => false
              if dup sorted then throw (Sig.unsupported "map keys with equal string forms: iteration order unspecified")
              pure (IterSt.map r (sorted.map (·.2)))
            | v => pure (IterSt.single v false))
        iterLoop (iterNext f ls n it) (bindLoopVars ls n vars) (eval f ls body) f start)
    else pure Val.null

def evalTry : Nat → Nat → Node → M Val
  | 0, _, _ => throw Sig.fuel
  | f+1, sc, n => do
    let last ← (match n.children.getLast? with | some (some l) => pure l | _ => throw Sig.panic)
    let fin : Option (M Val) ← (
      if last.name == "finally" then do
        let fs ← newChild sc (← scopeName last)
        pure (some (do eval f fs (← child last 0)))
      else pure none)
    let main : M Val := do
      let tvs ← newChild sc (← scopeName n)
      let handlers := (n.children.drop 1).filterMap fun c => match c with
        | some c => if c.name == "except" then some (exceptHandler f sc c) else none
        | none => some (fun _ => throw Sig.panic)
      let oth : Option (M Val) :=
        match (n.children.drop 1).find? fun c => match c with | some c => c.name == "otherwise" | none => false with
        | some (some o) => some (do
            let ovs ← newChild sc (← scopeName o)
            eval f ovs (← child o 0))
        | _ => none
      tryCore (do eval f tvs (← child n 0)) handlers oth
    tryFinally main fin

/-- tryRuntime.evalExcept for one except clause -/
def exceptHandler : Nat → Nat → Node → Handler
  | 0, _, _, _ => throw Sig.fuel
  | f+1, sc, c, e => do
    let k := c.children.length
    let ty : String := match e with
      | .err re _ => re.type
      | .iter re _ => re.type
      | _ => "UnexpectedError"
    if k == 1 then
      let evs ← newChild sc (← scopeName c)
      let _ ← eval f evs (← child c 0)
      pure (some Val.null)
    else if k == 2 && (← child c 0).name != "string" then
      let c0 ← child c 0
      let var ← (if c0.name == "as" then do pure (← tokOf (← child c0 0)).val else do pure (← tokOf c0).val)
      let evs ← newChild sc (← scopeName c)
      let eo ← errObject e
      match ← attemptE (setValue evs var eo) with
      | .error e => if e.isFatal then throw e
      | .ok _ => pure ()
      let _ ← eval f evs (← child c 1)
      pure (some Val.null)
    else
      -- typed clause (shape produced by the parser: strings, optional `as`, statements)
      let kids ← c.children.mapM fun ch => match ch with | some ch => pure ch | none => throw Sig.panic
      let strs := kids.takeWhile (·.name == "string")
      let rest := kids.dropWhile (·.name == "string")
      let (var, stm) ← (match rest with
        | [st] => if st.name == "statements" then pure (none, st) else throw (Sig.unsupported "except clause shape")
        | [a, st] =>
          if a.name == "as" && st.name == "statements" then do pure (some (← tokOf (← child a 0)).val, st)
          -- `except "T" e { }`: evalExcept skips the identifier child (nothing is bound)
          else if a.name == "identifier" && st.name == "statements" then pure (none, st)
          else throw (Sig.unsupported "except clause shape")
        | _ => throw (Sig.unsupported "except clause shape"))
      if ← typedMatch ty bytesToString (strs.map fun ch => eval f sc ch) then
        let evs ← newChild sc (← scopeName c)
        match var with
        | some v =>
          let eo ← errObject e
          match ← attemptE (setValue evs v eo) with
          | .error e => if e.isFatal then throw e
          | .ok _ => pure ()
        | none => pure ()
        let _ ← eval f evs stm
        pure (some Val.null)
      else pure none
end

end Ecal.Ev
