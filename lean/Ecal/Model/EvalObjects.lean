import Ecal.Model.Eval
/-!
C05 additions to the evaluator model (owner: C05; `Model/Eval.lean` is imported, not edited).

* `callFrame` — the scope part of `function.Run` (rt_func.go) factored out of the mutual block of
  `Ecal.Ev.runFunction`: fresh root scope `func: <name>`, parameters bound in order (missing ⇒ default
  or null, extra ignored), THEN the parent link to the declaration scope.  `Props/C05.lean` proves the
  frame facts about it; `framesOk` re-checks them on the final state of every program the driver
  runs, i.e. on the frames `runFunction` really built.
* `evalTop` — evaluation of a top-level tree.
-/
namespace Ecal.Obj
open Ecal.Lex Ecal.Ev
open Ecal.Parse (Node)

/-- one declared parameter: its name and whether it has a default -/
structure Param where
  name : List Nat
  dflt : Option Node
  deriving Inhabited

/-- the parameters of a function declaration node (`function [identifier] params statements`) -/
def paramsOf (decl : Node) : List Param :=
  let off := match decl.children.head? with
    | some (some c0) => if c0.name == "identifier" then 1 else 0
    | _ => 0
  match decl.children[off]? with
  | some (some ps) =>
    ps.children.filterMap fun p =>
      match p with
      | some p =>
        if p.name == "identifier" then (p.tok.map fun t => { name := t.val, dflt := none })
        else if p.name == "preset" then
          match p.children with
          | [some n, some d] => n.tok.map fun t => { name := t.val, dflt := some d }
          | _ => none
        else none
      | none => none
  | _ => []

/-- the value a parameter receives: the argument at its position, else its default (evaluated by
    `evalDefault`, which the evaluator instantiates with evaluation in the CALLER's scope), else null -/
def paramValue (evalDefault : Node → M Val) (p : Param) (i : Nat) (args : List Val) : M Val :=
  match args[i]? with
  | some a => pure a
  | none =>
    match p.dflt with
    | some d => evalDefault d
    | none => pure Val.null

/-- bind the parameters from position `i` on in the (still parentless) frame -/
def bindParams (evalDefault : Node → M Val) (fvs : Nat) : List Param → Nat → List Val → M Unit
  | [], _, _ => pure ()
  | p :: ps, i, args => do
    let v ← paramValue evalDefault p i args
    setValue fvs p.name v
    bindParams evalDefault fvs ps (i + 1) args

/-- the context variables of a bound function: `this`, then `super` (only those that are present) -/
def contextVars (this super : Option Val) : List (List Nat × Val) :=
  (match this with | some t => [(thisName, t)] | none => []) ++
  (match super with | some s => [(superName, s)] | none => [])

def setAll (fvs : Nat) : List (List Nat × Val) → M Unit
  | [] => pure ()
  | (n, v) :: rest => do setValue fvs n v; setAll fvs rest

/-- function.Run up to the evaluation of the body: fresh root scope, `this` / `super`, the parameters,
    and only then the link to the declaration scope; returns the frame -/
def callFrame (evalDefault : Node → M Val) (name : String) (declScope : Nat) (this super : Option Val)
    (params : List Param) (args : List Val) : M Nat := do
  let fvs ← newScope s!"func: {name}"
  setAll fvs (contextVars this super)
  bindParams evalDefault fvs params 0 args
  let s ← getScope fvs
  setScope fvs { s with parent := some declScope }
  pure fvs

def dedup (l : List String) : List String :=
  l.foldl (fun acc x => if acc.contains x then acc else acc ++ [x]) []

/-- every function frame of the state was built the way `callFrame` builds it: it hangs under the
    declaration scope of a function of that name (or is still unlinked: a default raised an error) and
    its first variables are `this` / `super` (for a bound function) and that function's parameters, in
    order -/
def framesOk (st : St) : Bool :=
  st.scopes.all fun s =>
    if s.name.startsWith "func: " then
      st.funcs.any fun fr =>
        s.name == s!"func: {fr.name}" &&
        (s.parent == none || s.parent == some fr.declScope) &&
        (let ps := dedup (((contextVars fr.this fr.super).map (·.1) ++ (paramsOf fr.decl).map (·.name)).map
                     fun n => bytesToString ((splitDots n).headD []))
         let vs := s.vars.map (·.1)
         if s.parent == none then vs.isPrefixOf ps || ps.isPrefixOf vs else ps.isPrefixOf vs)
    else true

/-- evaluation of a top-level tree -/
def evalTop (fuel g : Nat) (n : Node) : M Val := eval fuel g n

end Ecal.Obj
