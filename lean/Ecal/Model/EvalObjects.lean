import Ecal.Model.Eval
/-!
C05 additions to the evaluator model (owner: C05; `Model/Eval.lean` is imported, not edited).

* `framesOk` — re-checks on the final state of every program the driver runs that the frames
  `runFunction` built have the shape `Ecal.Ev.buildFrame` (Model/Eval.lean, called by `runFunction`) is
  proved to produce: `this` / `super` / the parameters first, linked to the declaration scope.
* `evalTop` — evaluation of a top-level tree.
-/
namespace Ecal.Obj
open Ecal.Lex Ecal.Ev
open Ecal.Parse (Node)

/-- one declared parameter: its name and whether it has a default -/
structure Param where
  name : List Nat
  dflt : Option Node
  deriving Inhabited

/-- the parameters of a function declaration node (`function [identifier] params statements`) -/
def paramsOf (decl : Node) : List Param :=
  let off := match decl.children.head? with
    | some (some c0) => if c0.name == "identifier" then 1 else 0
    | _ => 0
  match decl.children[off]? with
  | some (some ps) =>
    ps.children.filterMap fun p =>
      match p with
      | some p =>
        if p.name == "identifier" then (p.tok.map fun t => { name := t.val, dflt := none })
        else if p.name == "preset" then
          match p.children with
          | [some n, some d] => n.tok.map fun t => { name := t.val, dflt := some d }
          | _ => none
        else none
      | none => none
  | _ => []

/-- the context variables of a bound function: `this`, then `super` (only those that are present) -/
def contextVars (this super : Option Val) : List (List Nat × Val) :=
  (match this with | some t => [(thisName, t)] | none => []) ++
  (match super with | some s => [(superName, s)] | none => [])

def dedup (l : List String) : List String :=
  l.foldl (fun acc x => if acc.contains x then acc else acc ++ [x]) []

/-- every function frame of the state was built the way `Ecal.Ev.buildFrame` builds it: it hangs under the
    declaration scope of a function of that name (or is still unlinked: a default raised an error) and
    its first variables are `this` / `super` (for a bound function) and that function's parameters, in
    order -/
def framesOk (st : St) : Bool :=
  st.scopes.all fun s =>
    if s.name.startsWith "func: " then
      st.funcs.any fun fr =>
        s.name == s!"func: {fr.name}" &&
        (s.parent == none || s.parent == some fr.declScope) &&
        (let ps := dedup (((contextVars fr.this fr.super).map (·.1) ++ (paramsOf fr.decl).map (·.name)).map
                     fun n => bytesToString ((splitDots n).headD []))
         let vs := s.vars.map (·.1)
         if s.parent == none then vs.isPrefixOf ps || ps.isPrefixOf vs else ps.isPrefixOf vs)
    else true

/-- evaluation of a top-level tree -/
def evalTop (fuel g : Nat) (n : Node) : M Val := eval fuel g n

end Ecal.Obj
