import Ecal.Model.Eval
/-!
C05 entry point of the evaluator model.  (Objects, call frames and the list builtins live in `Model/Eval.lean`:
`buildFrame`, `copyProps`, `addSuperClasses`, `newB`, `lenB` … — the functions `runFunction` / `runBuiltin` call.
An earlier `framesOk` self-check of the model's frames was removed: `runFunction` calls `buildFrame` by definition,
so it could not fail and said nothing about the Go code.)
-/
namespace Ecal.Obj
open Ecal.Lex Ecal.Ev
open Ecal.Parse (Node)

/-- evaluation of a top-level tree -/
def evalTop (fuel g : Nat) (n : Node) : M Val := eval fuel g n

end Ecal.Obj
