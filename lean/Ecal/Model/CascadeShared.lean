import Ecal.Model.Cascade
/-!
# What the cascades of one processor share

`Ecal.Cascade.State` keeps, per root monitor, counters for "its" observers, "its" pending
callbacks and "its" queue entry. In the Go code these live in structures shared by all cascades:

* `EventPump.eventsObservers[MessageRootMonitorFinished]` — one table; entries are appended by
  `AddObserver(msg, root, cb)`, deleted by `RemoveObservers(msg, root)` (all entries of that
  source), and `PostEvent(msg, root)` takes a snapshot and calls the callbacks whose source is the
  posting root (`source == eventSource || source == nil`; the engine never registers a nil source);
* `TaskQueue.queues` — one map keyed by the root monitor's id;
* the pool's workers.

`Conc` models exactly that: ONE observer table, ONE list of pending callbacks, ONE queue map; the
operations are the global list operations (append, filter by key, erase). `Conc.view C r` reads
root `r`'s counters off the shared structures. `Ecal.Props.C02.conc_refines` proves that every
step of `Conc` is, seen through `view r`, a step of `Cascade.step`, and leaves every other root's
view unchanged — so that "nothing from another cascade" is a theorem about the keyed operations,
not a consequence of keeping the cascades in separate records.
-/
namespace Ecal.Cascade

abbrev Entry := Nat × Obs

def cnt (l : List Entry) (r : Nat) (o : Obs) : Nat := l.count (r, o)

/-- the root-local part of a cascade state (the shared parts zeroed) -/
def State.local (s : State) : State :=
  { s with obsWait := 0, obsHandler := 0, obsQueue := 0, hasQueue := false, dWait := 0, dHandler := 0, dQueue := 0 }

structure Conc where
  workers   : Nat
  failFirst : Bool
  /-- root-local states (`State.local` form) -/
  roots     : List State
  /-- the pump's observer table for `MessageRootMonitorFinished`: (source root, callback), registration order -/
  table     : List Entry := []
  /-- callbacks of `PostEvent` snapshots that have not run yet -/
  pending   : List Entry := []
  /-- keys of `TaskQueue.queues` -/
  queues    : List Nat := []

/-- root `r` as `Cascade.step` sees it: its counters read off the shared structures -/
def Conc.view (C : Conc) (r : Nat) : Option State :=
  (C.roots[r]?).map fun s =>
    { s with obsWait := cnt C.table r .wait, obsHandler := cnt C.table r .handler, obsQueue := cnt C.table r .queue,
             hasQueue := C.queues.contains r,
             dWait := cnt C.pending r .wait, dHandler := cnt C.pending r .handler, dQueue := cnt C.pending r .queue }

/-- `AddObserver(msg, r, cb)` -/
def Conc.addObserver (C : Conc) (r : Nat) (o : Obs) : Conc := { C with table := C.table ++ [(r, o)] }
/-- `RemoveObservers(msg, r)` -/
def Conc.removeObservers (C : Conc) (r : Nat) : Conc := { C with table := C.table.filter fun e => e.1 != r }
/-- `PostEvent(msg, r)`: snapshot, keep the callbacks registered for source `r` -/
def Conc.postEvent (C : Conc) (r : Nat) : Conc := { C with pending := C.pending ++ C.table.filter fun e => e.1 == r }
/-- the variant without the source filter (not the code; negative witness) -/
def Conc.postEventUnfiltered (C : Conc) (_r : Nat) : Conc := { C with pending := C.pending ++ C.table }

/-- worker `w` is free in every cascade -/
def Conc.workerFree (C : Conc) (w : Nat) : Bool := C.roots.all fun s => s.workerFree w

def Conc.allows (C : Conc) : Event → Bool
  | .pop w _ => C.workerFree w
  | _ => true

/-- the effect of an event of cascade `r` on the shared structures -/
def Conc.shared (C : Conc) (r : Nat) : Event → Conc
  | .register => C.addObserver r .wait
  | .regHandler => C.addObserver r .handler
  | .addEvent _ true _ =>
    -- `TaskQueue.Push`: a new map entry gets its observer
    if C.queues.contains r then C else ({ C with queues := r :: C.queues }).addObserver r .queue
  | .dropQueue => { C with queues := C.queues.filter fun k => k != r }
  | .post => C.postEvent r
  | .observerRuns o => ({ C with pending := C.pending.erase (r, o) }).removeObservers r
  | _ => C

/-- one step of cascade `r` in the shared system: guard and root-local effect as in `Cascade.step`
    (evaluated on the view), shared effect by the global operations -/
def Conc.step (C : Conc) (r : Nat) (e : Event) : Option Conc :=
  match C.view r with
  | none => none
  | some v =>
    if C.allows e then
      match Cascade.step v e with
      | none => none
      | some v' => some (({ C with roots := C.roots.set r v'.local }).shared r e)
    else none

inductive ConcEvent where
  | newRoot
  | at (r : Nat) (e : Event)
  deriving Repr

def Conc.init (workers : Nat) (failFirst : Bool) : Conc := { workers, failFirst, roots := [] }

def Conc.stepE (C : Conc) : ConcEvent → Option Conc
  | .newRoot => some { C with roots := C.roots ++ [(Cascade.init C.workers C.failFirst).local] }
  | .at r e => C.step r e

def Conc.run (C : Conc) (es : List ConcEvent) : Option Conc := es.foldlM Conc.stepE C

def Conc.Reachable (C : Conc) : Prop := ∃ w ff es, Conc.run (Conc.init w ff) es = some C

/-! ### executions and fairness

An execution of the processor is an infinite sequence of ticks; at each tick some goroutine attempts
an event (or nothing happens); an attempt that is not enabled leaves the state as it is. -/

def ConcEvent.internal : ConcEvent → Bool
  | .at _ e => e.internal
  | .newRoot => false

/-- events by which the program (adding goroutines, the actions' own code) brings new work:
    `NewRootMonitor`, observer registrations of `AddEventAndWait` / `AddEvent`, `AddEvent`, `NewChildMonitor` -/
def ConcEvent.adds : ConcEvent → Bool
  | .newRoot => true
  | .at _ .register => true
  | .at _ .regHandler => true
  | .at _ (.addEvent _ _ _) => true
  | .at _ (.newChild _) => true
  | _ => false

structure Exec where
  C     : Nat → Conc
  ev    : Nat → Option ConcEvent
  start : (C 0).Reachable
  next  : ∀ n, C (n + 1) = match ev n with
    | none => C n
    | some e => (Conc.stepE (C n) e).getD (C n)

/-- some engine step (pop, action return, task end, error handling, post, callback) of some cascade is enabled -/
def Conc.enabledInternal (C : Conc) : Prop := ∃ r e, e.internal = true ∧ (C.step r e).isSome = true

/-- at tick `n` an engine step is attempted and succeeds -/
def Exec.tookInternal (X : Exec) (n : Nat) : Prop :=
  ∃ e, X.ev n = some e ∧ e.internal = true ∧ (Conc.stepE (X.C n) e).isSome = true

/-- FAIRNESS ASSUMPTION (weak, for the engine as a whole): whenever some engine step is enabled, an
    engine step is eventually taken. This is what the Go scheduler (every runnable goroutine is
    eventually run) together with the pool's liveness (C09: a queued task is eventually popped by
    a free worker) provide; it is assumed, not proved. -/
def Exec.Fair (X : Exec) : Prop := ∀ n, (X.C n).enabledInternal → ∃ m, n ≤ m ∧ X.tookInternal m

/-- from tick `N` on the program adds no new work (the actions have performed all their
    `NewChildMonitor`/`AddEvent` calls — "the actions terminate" — and no new cascade is started) -/
def Exec.AddsStopAt (X : Exec) (N : Nat) : Prop := ∀ n, N ≤ n → ∀ e, X.ev n = some e → e.adds = false

def Conc.viewWork (C : Conc) (r : Nat) : Nat :=
  match C.view r with
  | some v => workLeft v
  | none => 0

/-- total work left in all cascades -/
def Conc.work (C : Conc) : Nat := ((List.range C.roots.length).map C.viewWork).sum

/-- what `Cascade.step` does to the shared-looking fields of a state, as a function of the event -/
def obsEffect (e : Event) (v : State) : Nat × Nat × Nat × Bool × Nat × Nat × Nat :=
  match e with
  | .register => (v.obsWait + 1, v.obsHandler, v.obsQueue, v.hasQueue, v.dWait, v.dHandler, v.dQueue)
  | .regHandler => (v.obsWait, v.obsHandler + 1, v.obsQueue, v.hasQueue, v.dWait, v.dHandler, v.dQueue)
  | .addEvent _ true _ =>
    (v.obsWait, v.obsHandler, if v.hasQueue then v.obsQueue else v.obsQueue + 1, true, v.dWait, v.dHandler, v.dQueue)
  | .dropQueue => (v.obsWait, v.obsHandler, v.obsQueue, false, v.dWait, v.dHandler, v.dQueue)
  | .post => (v.obsWait, v.obsHandler, v.obsQueue, v.hasQueue, v.dWait + v.obsWait, v.dHandler + v.obsHandler, v.dQueue + v.obsQueue)
  | .observerRuns .wait => (0, 0, 0, v.hasQueue, v.dWait - 1, v.dHandler, v.dQueue)
  | .observerRuns .handler => (0, 0, 0, v.hasQueue, v.dWait, v.dHandler - 1, v.dQueue)
  | .observerRuns .queue => (0, 0, 0, v.hasQueue, v.dWait, v.dHandler, v.dQueue - 1)
  | _ => (v.obsWait, v.obsHandler, v.obsQueue, v.hasQueue, v.dWait, v.dHandler, v.dQueue)

def State.sharedFields (v : State) : Nat × Nat × Nat × Bool × Nat × Nat × Nat :=
  (v.obsWait, v.obsHandler, v.obsQueue, v.hasQueue, v.dWait, v.dHandler, v.dQueue)

end Ecal.Cascade
