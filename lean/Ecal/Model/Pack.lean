import Ecal.Gen.C20
/-!
# Model of the pack tool's file layout and of the marker scan (cli/tool/pack.go)

Bytes are `Nat`s (< 256 by construction); a file is a `List Nat`.

* `layout M bin zip = bin ++ M ++ zip` — what `CLIPacker.Pack` writes: a copy of
  the source binary, the marker string, the zip archive.
* `Impl.scanLoop` follows the block loop of `RunPackedBinary` (version after fix
  a0bf548) statement by statement:

  ```go
  buf := make([]byte, b1+b2); overlap := 0
  for rerr := error(nil); !found && rerr == nil; {
      n, rerr = f.Read(buf[overlap:])
      window := buf[:overlap+n]
      if markerIndex := strings.Index(string(window), packmarker); markerIndex >= 0 {
          found = true; pos += int64(markerIndex + len(packmarker))
      } else {
          keep := len(packmarker) - 1
          if keep > len(window) { keep = len(window) }
          pos += int64(len(window) - keep)
          overlap = copy(buf, window[len(window)-keep:])
      }
  }
  ```

  The model state is (unread rest of the file, `buf[:overlap]`, `pos`). A read
  returns between 1 and `len(buf[overlap:])` bytes while the file has bytes left
  (how many is decided by a *read schedule* `rd`, so short reads are covered; the
  driver uses full reads), `0, io.EOF` at the end of the file, and `0, nil` when
  the slice handed to it is empty (then the Go loop spins for ever: outcome
  `hang`). There is no stale tail: the window is `buf[:overlap+n]`.
* `Impl.skipCtl` is the loop that skips white-space / control bytes after the
  marker with `ReadAt` (stops at the end of the file).
* `Impl.scan` = loop + skip = the offset handed to the zip reader;
  `Impl.archive` = the bytes of the section reader.
* `Spec.find` = offset just after the first occurrence of the marker.
* `Old.scan` = the scanner before the repair (stride scanner with the `#`
  pre-filter and a second read), kept for the negative witness.

The geometry (`bufSize = b1+b2`, `keep`, the marker) is a parameter here; the
property theorems instantiate it with the constants regenerated from pack.go
(`Ecal.Gen.C20`).
-/
namespace Ecal.Pack

/-- `M` occurs in `l` at index `i` -/
def occ (M l : List Nat) (i : Nat) : Prop := M <+: l.drop i

/-- `strings.Index`: index of the first occurrence (`none` = -1) -/
def findFirst (M : List Nat) : List Nat → Option Nat
  | [] => if M = [] then some 0 else none
  | x :: xs => if M.isPrefixOf (x :: xs) then some 0 else (findFirst M xs).map (· + 1)

/-- the file written by `Pack` -/
def layout (M bin zip : List Nat) : List Nat := bin ++ M ++ zip

/-- is byte `b` skipped after the marker? The 256-entry table is regenerated on every run by
    evaluating the predicate of the code's skip loop with Go's unicode functions
    (`Ecal.Gen.C20.skipTable`; reference: `unicode.IsSpace || unicode.IsControl`). -/
def isSkip (b : Nat) : Bool := Ecal.Gen.C20.skipTable.getD b false

/-- result of the marker scan -/
inductive Res where
  | found (pos : Nat)   -- `found = true`, `pos`
  | notFound            -- loop ended with `io.EOF`, `found = false`: fall through to the normal CLI
  | hang                -- the loop never ends (a read of an empty slice makes no progress)
  | panic               -- a slice expression of the loop is out of range (`buf[overlap:]` with overlap > len(buf))
  deriving Repr, DecidableEq

/-- geometry of the scanner, as written in pack.go -/
structure Geom where
  bufSize : Nat        -- `len(buf)` = `b1+b2`
  keep    : Nat        -- `keep := len(packmarker) - 1`
  marker  : List Nat   -- `packmarker`

/-! ### Writing the target file

`Pack` opens the target and writes `layout` from offset 0. Whether an existing, longer
target keeps its old tail depends on how the file is opened. -/

/-- `truncate` = `os.Create` / `O_TRUNC`; `keepOld` = `O_WRONLY|O_CREATE` without `O_TRUNC` -/
inductive OpenMode where
  | truncate
  | keepOld
  deriving Repr, DecidableEq

/-- content of a file with content `old` after it was opened in mode `m`, `new` was written from
    offset 0 and it was closed -/
def writeFrom0 (m : OpenMode) (old new : List Nat) : List Nat :=
  match m with
  | .truncate => new
  | .keepOld => new ++ old.drop new.length

/-- one run of the pack tool on a target that has content `old` (`[]` = does not exist) -/
def pack (m : OpenMode) (M old bin zip : List Nat) : List Nat := writeFrom0 m old (layout M bin zip)

namespace Impl

/-- number of bytes one `f.Read(p)` returns: `room = len(p)`, `avail` = bytes left in
    the file, `want` = what the schedule proposes. `0` iff `room = 0` or `avail = 0`. -/
def readLen (room avail want : Nat) : Nat := min (min room avail) (max 1 want)

/-- the block loop. `rd fuel room` is the read schedule (full reads: `fun _ r => r`).
    State: `rest` = unread part of the file, `carry = buf[:overlap]`, `pos`. -/
def scanLoop (g : Geom) (rd : Nat → Nat → Nat) : Nat → List Nat → List Nat → Nat → Res
  | 0, _, _, _ => .hang
  | fuel+1, rest, carry, pos =>
    if g.bufSize < carry.length then .panic else         -- buf[overlap:] : slice bounds out of range
    let room := g.bufSize - carry.length                 -- len(buf[overlap:])
    let n := readLen room rest.length (rd fuel room)     -- n, rerr = f.Read(buf[overlap:])
    let window := carry ++ rest.take n                   -- buf[:overlap+n]
    match findFirst g.marker window with
    | some i => .found (pos + (i + g.marker.length))
    | none =>
      let keep := min g.keep window.length
      let pos' := pos + (window.length - keep)
      let carry' := window.drop (window.length - keep)   -- overlap = copy(buf, window[len(window)-keep:])
      if room = 0 then .hang                             -- Read(empty slice) = 0, nil for ever
      else if rest = [] then .notFound                   -- rerr = io.EOF
      else scanLoop g rd fuel (rest.drop n) carry' pos'

/-- the skip loop on the bytes from `pos` on: stops at a byte that is neither space
    nor control, or when `ReadAt` fails at the end of the file -/
def skipFrom : List Nat → Nat → Nat
  | [], pos => pos
  | c :: cs, pos => if isSkip c then skipFrom cs (pos + 1) else pos

def skipCtl (data : List Nat) (pos : Nat) : Nat := skipFrom (data.drop pos) pos

/-- marker scan of `RunPackedBinary` on the file `data`: the offset of the archive -/
def scan (g : Geom) (rd : Nat → Nat → Nat) (data : List Nat) : Res :=
  match scanLoop g rd (data.length + 1) data [] 0 with
  | .found p => .found (skipCtl data p)
  | r => r

/-- full reads (what the driver runs; regular files are read in full blocks) -/
def fullReads : Nat → Nat → Nat := fun _ room => room

/-- the bytes the zip reader gets: `io.NewSectionReader(f, pos, stat.Size()-pos)` -/
def archive (g : Geom) (rd : Nat → Nat → Nat) (data : List Nat) : Option (List Nat) :=
  match scan g rd data with
  | .found p => some (data.drop p)
  | _ => none

end Impl

/-! ### After the scan: what `RunPackedBinary` does with the result

```go
if err == nil && found {
    if _, err = f.Seek(pos, 0); err == nil {
        ret, err = runInterpreter(io.NewSectionReader(f, pos, zipLen), zipLen)   // zip error, parse/validate error
        retCode = int(ret.(float64)); result = err == nil                          // runtime errors are printed, err = nil
    }
}
handleError(err)        // errorutil.AssertOk: panics on an error
if result { osExit(retCode) }
```
Everything outside the byte-level model (seek, zip reader, parser, interpreter) enters as a
named field of `After`. -/

/-- the parts that are not modelled, as named facts about one run -/
structure After where
  seekOk  : Bool   -- `f.Seek(pos, 0)` succeeds
  zipOk   : Bool   -- `zip.NewReader` accepts the section and every member can be read
  entryOk : Bool   -- the entry file parses and validates
  result  : Int    -- `int(ret.(float64))` of evaluating the entry (0 if not a number / a runtime error was printed)

/-- what the user of a packed executable observes -/
inductive Outcome where
  | exit (rc : Int)   -- the exit callback is reached with the entry's result
  | fallThrough       -- RunPackedBinary returns: the normal command line starts
  | fail              -- handleError panics (or a slice panic in the scan)
  | hang
  deriving Repr, DecidableEq

def outcome (r : Res) (a : After) : Outcome :=
  match r with
  | .hang => .hang
  | .panic => .fail
  | .notFound => .fallThrough
  | .found _ => if a.seekOk && a.zipOk && a.entryOk then .exit a.result else .fail

/-! ### Which file is scanned

`RunPackedBinary` has to scan the file that was started. `filepath.Abs(argv[0])` names that file
when argv[0] is an absolute or relative path (also of a symbolic link to it); when the executable
was found through `$PATH`, argv[0] is a bare name and `Abs` resolves it against the working
directory — a missing or unrelated file. `os.Executable()` names the started file in all cases. -/

inductive StartForm where
  | absolute
  | relative
  | symlink
  | viaPath (sameNameInCwd : Bool)
  deriving Repr, DecidableEq

/-- is the file that gets scanned the file that was started? -/
def scannedIsStarted (usesOsExecutable : Bool) : StartForm → Bool
  | .viaPath _ => usesOsExecutable
  | _ => true

namespace Spec
/-- offset just after the first occurrence of the marker -/
def find (M data : List Nat) : Option Nat := (findFirst M data).map (· + M.length)
end Spec

/-! ## The scanner before the repair (for the negative witness) -/
namespace Old

inductive Res where
  | found (pos : Nat)
  | notFound
  | panic               -- `candidateString[start]` past the end
  deriving Repr, DecidableEq

/-- `f.Read(buf)` into a buffer with old contents `buf`: returns (n, new contents, rest) -/
def readInto (buf rest : List Nat) : Nat × List Nat × List Nat :=
  let n := min buf.length rest.length
  (n, rest.take n ++ buf.drop n, rest.drop n)

/-- skip loop of the old code: indexes the candidate string without a bound check -/
def skipOld (cand : List Nat) : Nat → Nat → Option Nat
  | 0, _ => none
  | fuel+1, start =>
    match cand[start]? with
    | none => none                                   -- index out of range: panic
    | some c => if isSkip c then skipOld cand fuel (start + 1) else some start

/-- the old loop: `for i, err := f.Read(buf); err == nil; …` with the `#` pre-filter,
    the second read into `buf2`, the whole (possibly stale) buffers searched -/
def scanLoop (M : List Nat) : Nat → List Nat → List Nat → List Nat → Nat → Res
  | 0, _, _, _, _ => .notFound
  | fuel+1, rest, buf, buf2, pos =>
    if rest = [] ∨ buf = [] then .notFound             -- Read: 0, io.EOF ends the loop
    else
      let (i, buf, rest) := readInto buf rest
      if buf.contains 35 then                          -- strings.Contains(string(buf), "#")
        let (i2, buf2, rest) := readInto buf2 rest     -- err == nil || err == io.EOF
        let cand := buf ++ buf2
        match findFirst M cand with
        | some mi =>
          match skipOld cand (cand.length + 1) (mi + M.length) with
          | some start => .found (pos + start)
          | none => .panic
        | none => scanLoop M fuel rest buf buf2 (pos + i2 + i)
      else scanLoop M fuel rest buf buf2 (pos + i)

def scan (b1 b2 : Nat) (M data : List Nat) : Res :=
  scanLoop M (data.length + 1) data (List.replicate b1 0) (List.replicate b2 0) 0

end Old
end Ecal.Pack
