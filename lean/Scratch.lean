import Ecal.Model.Priority
open Ecal.Priority Ecal.Priority.Book
def acts (ps : List Int) (start : Nat) : List Op := (ps.zipIdx start).flatMap fun (p, i) => [Op.newChild p, Op.activate i]
-- activate 5,9,3,11,8,4 (mons 1..6); finish 4 (mon 6); activate 6,7 (mons 7,8); finish 3 (mon 3)
def w : List Op := acts [5,9,3,11,8,4] 1 ++ [.finish 6] ++ acts [6,7] 7 ++ [.finish 3]
#eval (run {reheap := false, skipGuard := true} {} w).map fun s => (s.priorities, highestPriority s, trueHighest? s)
#eval (run current {} w).map fun s => (s.priorities, highestPriority s, trueHighest? s)
#eval (run beforeFix {} ([.activate 0, .newChild 0, .skip 1])).map fun s => (s.priorities, highestPriority s, trueHighest? s)
#eval Heap.init ilt [5,4,3,2,1,0,9]
#eval Heap.pop ilt (Heap.init ilt [5,4,3,2,1,0,9])
