import Ecal.Drivers.C01
import Ecal.Drivers.C02
import Ecal.Drivers.C03
import Ecal.Drivers.C04
import Ecal.Drivers.C05
import Ecal.Drivers.C06
import Ecal.Drivers.C07
import Ecal.Drivers.C08
import Ecal.Drivers.C09
import Ecal.Drivers.C10
import Ecal.Drivers.C11
import Ecal.Drivers.C12
import Ecal.Drivers.C13
import Ecal.Drivers.C14
import Ecal.Drivers.C15
import Ecal.Drivers.C16
import Ecal.Drivers.C17
import Ecal.Drivers.C18
import Ecal.Drivers.C19
import Ecal.Drivers.C20

/-- `driver <property> [args…]` : reads case lines on stdin, writes result lines on stdout -/
def main (args : List String) : IO UInt32 := do
  match args with
  | "C01" :: rest => Ecal.Drv.C01.run rest *> pure 0
  | "C02" :: rest => Ecal.Drv.C02.run rest *> pure 0
  | "C03" :: rest => Ecal.Drv.C03.run rest *> pure 0
  | "C04" :: rest => Ecal.Drv.C04.run rest *> pure 0
  | "C05" :: rest => Ecal.Drv.C05.run rest *> pure 0
  | "C06" :: rest => Ecal.Drv.C06.run rest *> pure 0
  | "C07" :: rest => Ecal.Drv.C07.run rest *> pure 0
  | "C08" :: rest => Ecal.Drv.C08.run rest *> pure 0
  | "C09" :: rest => Ecal.Drv.C09.run rest *> pure 0
  | "C10" :: rest => Ecal.Drv.C10.run rest *> pure 0
  | "C11" :: rest => Ecal.Drv.C11.run rest *> pure 0
  | "C12" :: rest => Ecal.Drv.C12.run rest *> pure 0
  | "C13" :: rest => Ecal.Drv.C13.run rest *> pure 0
  | "C14" :: rest => Ecal.Drv.C14.run rest *> pure 0
  | "C15" :: rest => Ecal.Drv.C15.run rest *> pure 0
  | "C16" :: rest => Ecal.Drv.C16.run rest *> pure 0
  | "C17" :: rest => Ecal.Drv.C17.run rest *> pure 0
  | "C18" :: rest => Ecal.Drv.C18.run rest *> pure 0
  | "C19" :: rest => Ecal.Drv.C19.run rest *> pure 0
  | "C20" :: rest => Ecal.Drv.C20.run rest *> pure 0
  | _ => do
    IO.eprintln "usage: driver <C01..C20> [args]"
    pure 2
