"""Shared machinery of ./check — see DESIGN.md section 2.

A check of property Cxx
  1. (optional) regenerates facts from /repo's working tree into lean/Ecal/Gen/,
  2. builds the Lean property module(s) and audits every theorem's axioms,
  3. builds the Go harness against /repo's working tree (tag `verif`),
  4. runs the correspondence: the harness executes the REAL code on generated
     cases, the Lean driver runs the MODEL on the same case lines, results are
     compared line by line,
  5. writes replays / evidence, prints KNOWN-FINDING / VIOLATION lines.
"""
import fcntl
import hashlib
import json
import os
import re
import shutil
import subprocess
import sys
import tempfile
import threading
import time

VERIF = os.path.dirname(os.path.dirname(os.path.abspath(__file__)))
REPO = os.environ.get("VERIF_REPO", "/repo")
LEAN = os.path.join(VERIF, "lean")
GO = os.path.join(VERIF, "go")
DRIVER = os.path.join(LEAN, ".lake", "build", "bin", "driver")
ALLOWED_AXIOMS = {"propext", "Classical.choice", "Quot.sound"}
FORBIDDEN = re.compile(
    r"\bsorry\b|\badmit\b|^\s*axiom\s|native_decide|bv_decide|implemented_by|\bunsafe\s|maxHeartbeats\s+0|sorryAx")

GOENV = dict(os.environ, GOFLAGS="-mod=mod", GOPROXY="off", GOSUMDB="off", GOTOOLCHAIN="local",
             CGO_ENABLED=os.environ.get("CGO_ENABLED", "0"))

BASE_TRUSTED = [
    "Lean 4.33.0 kernel (lake build; leanchecker re-check in the thorough tier)",
    "axioms allowed: propext, Classical.choice, Quot.sound (audited per theorem with #print axioms on every run)",
    "the statements in lean/Ecal/Props/*.lean and the model definitions they are about",
    "the correspondence harness (go/cmd/harness): generators, canonicaliser, process isolation",
    "Go runtime, compiler and standard library",
]


class CheckError(Exception):
    """The check itself could not run (build failure of the machinery, …)."""


class RealCodeCrash(Exception):
    """The harness process died OUTSIDE a case (while generating cases or setting up) with a Go panic /
    fatal error whose stack has frames in the tree under test: the real code crashed."""


def sh(cmd, cwd=None, env=None, timeout=1800, input=None):
    p = subprocess.run(cmd, cwd=cwd, env=env, timeout=timeout, input=input,
                       stdout=subprocess.PIPE, stderr=subprocess.STDOUT, text=True)
    return p.returncode, p.stdout


class Ctx:
    def __init__(self, prop, tier, seed):
        self.prop = prop
        self.tier = tier
        self.seed = seed
        self.t0 = time.time()
        os.makedirs(os.path.join(VERIF, ".work"), exist_ok=True)
        self.work = tempfile.mkdtemp(prefix=f"{prop}-", dir=os.path.join(VERIF, ".work"))
        self.coverage = {}
        self.assumptions = []
        self.violations = []      # (replay_path, text)
        self.known = []           # text lines
        self.notes = []
        self.harness = None

    def cleanup(self):
        shutil.rmtree(self.work, ignore_errors=True)

    def log(self, *a):
        print(f"[{self.prop} {time.time() - self.t0:6.1f}s]", *a, flush=True)


# --------------------------------------------------------------------------- Lean

def _lean_lock():
    f = open(os.path.join(VERIF, ".lean.lock"), "w")
    fcntl.flock(f, fcntl.LOCK_EX)
    return f


def strip_lean_comments(src):
    # nested block comments
    out, i, depth, n = [], 0, 0, len(src)
    while i < n:
        if src.startswith("/-", i):
            depth += 1
            i += 2
        elif depth and src.startswith("-/", i):
            depth -= 1
            i += 2
        elif depth:
            if src[i] == "\n":
                out.append("\n")
            i += 1
        elif src.startswith("--", i):
            while i < n and src[i] != "\n":
                i += 1
        else:
            out.append(src[i])
            i += 1
    return "".join(out)


def lean_theorems(module):
    """fully qualified names of the theorems declared in a Props module"""
    path = os.path.join(LEAN, *module.split(".")) + ".lean"
    src = strip_lean_comments(open(path).read())
    ns, names = [], []
    for line in src.splitlines():
        m = re.match(r"\s*namespace\s+(\S+)", line)
        if m:
            ns.append(m.group(1))
            continue
        m = re.match(r"\s*end\s+(\S+)", line)
        if m and ns and ns[-1] == m.group(1):
            ns.pop()
            continue
        m = re.match(r"\s*(?:@\[[^\]]*\]\s*)?(?:private\s+|protected\s+)?theorem\s+([^\s:({\[]+)", line)
        if m:
            names.append(".".join(ns + [m.group(1)]))
    return names


def lean_forbidden_scan():
    hits = []
    for root, _, files in os.walk(LEAN):
        if ".lake" in root:
            continue
        for fn in files:
            if fn.endswith(".lean"):
                p = os.path.join(root, fn)
                for k, line in enumerate(strip_lean_comments(open(p).read()).splitlines(), 1):
                    if FORBIDDEN.search(line):
                        hits.append(f"{os.path.relpath(p, VERIF)}:{k}: {line.strip()}")
    return hits


def lean_check(ctx, modules, leanchecker=False):
    """build the property modules + driver, audit axioms. Returns dict."""
    res = {"obligations": 0, "discharged": 0, "failures": [], "axioms": [], "theorems": []}
    lock = _lean_lock()
    try:
        cmd = ["lake", "build"] + modules + ["driver"]
        res["checker_cmd"] = "cd lean && " + " ".join(cmd) + " && lake env lean <generated #print axioms file>"
        rc, out = sh(cmd, cwd=LEAN, timeout=3000)
        build_ok = rc == 0
        if not build_ok:
            errs = [l for l in out.splitlines() if l.startswith("error:")]
            res["failures"].append("lake build failed: " + " | ".join(errs[:8]))
            res["build_log"] = out[-4000:]
        hits = lean_forbidden_scan()
        if hits:
            res["failures"].append("forbidden constructs in Lean sources: " + "; ".join(hits[:5]))
        thms = []
        for m in modules:
            thms += lean_theorems(m)
        res["theorems"] = thms
        res["obligations"] = len(thms)
        if build_ok and thms:
            audit = os.path.join(ctx.work, "Audit.lean")
            with open(audit, "w") as f:
                for m in modules:
                    f.write(f"import {m}\n")
                for t in thms:
                    f.write(f"#print axioms {t}\n")
            rc, out = sh(["lake", "env", "lean", audit], cwd=LEAN, timeout=1200)
            ax_all = set()
            ok = 0
            # output: "'name' depends on axioms: [a, b]" possibly wrapped over lines
            flat = re.sub(r"\s+", " ", out)
            for t in thms:
                m = re.search(r"'" + re.escape(t) + r"' (does not depend on any axioms|depends on axioms: \[([^\]]*)\])", flat)
                if not m:
                    res["failures"].append(f"no axiom report for {t}")
                    continue
                axs = set(a.strip() for a in (m.group(2) or "").split(",") if a.strip())
                ax_all |= axs
                bad = axs - ALLOWED_AXIOMS
                if bad:
                    res["failures"].append(f"{t} depends on {sorted(bad)}")
                else:
                    ok += 1
            res["discharged"] = ok if not hits else 0
            res["axioms"] = sorted(ax_all)
        if leanchecker and build_ok:
            for m in modules:
                rc, out = sh(["lake", "env", "leanchecker", m], cwd=LEAN, timeout=3000)
                if rc != 0:
                    res["failures"].append(f"leanchecker {m} failed: {out[-300:]}")
                else:
                    res.setdefault("leanchecker", []).append(m)
    finally:
        lock.close()
    return res


# --------------------------------------------------------------------------- Go

def go_build(ctx, pkg="./cmd/harness", out="harness", tags="verif", race=False):
    modfile = os.path.join(ctx.work, "go.mod")
    src = open(os.path.join(GO, "go.mod")).read()
    src = re.sub(r"=> /repo\b", "=> " + REPO, src)
    open(modfile, "w").write(src)
    shutil.copy(os.path.join(REPO, "go.sum"), os.path.join(ctx.work, "go.sum"))
    binp = os.path.join(ctx.work, out)
    cmd = ["go", "build", "-tags", tags, "-modfile=" + modfile, "-o", binp]
    env = dict(GOENV)
    if os.environ.get("VERIF_COVER"):
        # measurement mode (tools/coverage.sh): which statements of /repo do the generated cases reach?
        cmd[2:2] = ["-cover", "-coverpkg=github.com/krotik/ecal/...,verifharness/..."]
    if race:
        cmd.insert(2, "-race")
        env["CGO_ENABLED"] = "1"
    cmd.append(pkg)
    rc, o = sh(cmd, cwd=GO, env=env, timeout=1200)
    if rc != 0:
        raise CheckError("go build of the harness against %s failed:\n%s" % (REPO, o[-3000:]))
    return binp


def _read_lines(path):
    if not os.path.exists(path):
        return []
    with open(path, errors="replace") as f:
        return [l.rstrip("\n") for l in f]


def _run_shard(ctx, binp, prop, i, n, extra, results, deadline, env=None):
    cases_f = os.path.join(ctx.work, f"cases.{i}")
    out_f = os.path.join(ctx.work, f"out.{i}")
    start = 0
    info = {"restarts": 0, "crashes": [], "done": False, "stats": {}}
    last_progress = -1
    while True:
        if time.time() > deadline:
            info["timeout"] = True
            break
        cmd = [binp, prop, "-tier", ctx.tier, "-seed", str(ctx.seed), "-shard", f"{i}/{n}",
               "-start", str(start), "-cases", cases_f, "-out", out_f] + extra
        try:
            p = subprocess.run(cmd, cwd=ctx.work, env=dict(GOENV, GOMEMLIMIT="3GiB", **(env or {})),
                               stdout=subprocess.PIPE, stderr=subprocess.STDOUT, text=True, errors="replace",
                               timeout=max(5, deadline - time.time()))
            rc, tail = p.returncode, p.stdout[-1500:]
            # a Go `panic:` / `fatal error:` dump names the crashing goroutine FIRST and may be long: keep the
            # head of the dump too, so that frames in the tree under test are seen by the classification below
            k = max(p.stdout.rfind("\npanic: "), p.stdout.rfind("\nfatal error: "), 0 if p.stdout.startswith(("panic: ", "fatal error: ")) else -1)
            if k >= 0 and len(p.stdout) - k > 1500:
                tail = p.stdout[k:k + 2500] + "\n[…]\n" + tail
        except subprocess.TimeoutExpired as e:
            rc, tail = -9, "harness process exceeded the run deadline"
            info["timeout"] = True
        cases = [l.split("\t", 1) for l in _read_lines(cases_f) if l and not l.startswith("#")]
        outs = _read_lines(out_f)
        have = set()
        done = False
        for l in outs:
            if l.startswith("#done"):
                done = True
            elif l and not l.startswith("#"):
                have.add(l.split("\t", 1)[0])
        if done and rc == 0:
            info["done"] = True
            break
        if info.get("timeout"):
            break
        # find the case without a result (process died while running it)
        last_idx = int(cases[-1][0]) if cases else start - 1
        if cases and cases[-1][0] not in have:
            with open(out_f, "a") as f:
                f.write(f"{cases[-1][0]}\tCRASH {' '.join(tail.split())[:300]}\n")
            info["crashes"].append({"idx": int(cases[-1][0]), "rc": rc, "output": tail[-600:]})
        elif rc not in (3, 4):
            # died outside a case (generator / setup): cannot make progress
            info["fatal"] = f"harness exited with status {rc} outside a case: {tail[-4500:]}"
            break
        if last_idx <= last_progress:
            info["fatal"] = f"harness made no progress after restart (idx {last_idx}): {tail[-400:]}"
            break
        last_progress = last_idx
        start = last_idx + 1
        info["restarts"] += 1
    results[i] = info


def run_cases(ctx, binp, prop, shards=8, extra=None, budget_s=900, env=None):
    """run the harness (sharded, restarted after crashes); returns (cases, go_results, stats, infos)"""
    extra = extra or []
    results = {}
    deadline = time.time() + budget_s
    ths = [threading.Thread(target=_run_shard, args=(ctx, binp, prop, i, shards, extra, results, deadline, env))
           for i in range(shards)]
    for t in ths:
        t.start()
    for t in ths:
        t.join()
    cases, gores, stats = {}, {}, {}
    for i in range(shards):
        info = results[i]
        if info.get("fatal"):
            f = info["fatal"]
            if ("panic:" in f or "fatal error:" in f or "goroutine " in f) and (REPO.rstrip("/") + "/") in f:
                raise RealCodeCrash(f)
            raise CheckError(f)
        if info.get("timeout"):
            raise CheckError(f"harness shard {i} did not finish within {budget_s}s")
        for l in _read_lines(os.path.join(ctx.work, f"cases.{i}")):
            if l and not l.startswith("#"):
                a, b = l.split("\t", 1)
                cases[int(a)] = b
        for l in _read_lines(os.path.join(ctx.work, f"out.{i}")):
            if l.startswith("#stats\t"):
                for k, v in json.loads(l.split("\t", 1)[1]).items():
                    stats[k] = stats.get(k, 0) + v
            elif l and not l.startswith("#"):
                a, b = l.split("\t", 1)
                gores[int(a)] = b
    # a HANG / CRASH seen under load is re-checked alone with a 10x time limit before it is believed
    suspicious = [i for i in sorted(gores) if gores[i].startswith(("HANG", "CRASH"))][:40]
    # (the first 4 one at a time; any further ones 4 at a time — the machine has 16 cores and nothing else of
    # this check is running at that point — so a tree on which many cases really hang is not re-checked for an hour)
    slock = threading.Lock()

    def recheck(i):
        try:
            p = subprocess.run([binp, prop, "-tmult", "10", "-one", cases[i]] + extra, cwd=ctx.work, env=GOENV,
                               stdout=subprocess.PIPE, stderr=subprocess.STDOUT, text=True, errors="replace", timeout=600)
            lines = [l for l in p.stdout.splitlines() if l.strip()]
            if p.returncode == 0 and lines and not lines[0].startswith(("HANG", "PANIC")):
                with slock:
                    stats["rechecked_alone_ok"] = stats.get("rechecked_alone_ok", 0) + 1
                    gores[i] = lines[0]
        except subprocess.TimeoutExpired:
            pass
        except OSError:
            # a payload of several MB does not fit on a command line ("Argument list too long"): the
            # result seen under load is kept as it is
            with slock:
                stats["recheck_skipped_payload_too_long"] = stats.get("recheck_skipped_payload_too_long", 0) + 1

    for i in suspicious[:4]:
        recheck(i)
    rest = suspicious[4:]
    for k in range(0, len(rest), 4):
        ths = [threading.Thread(target=recheck, args=(i,)) for i in rest[k:k + 4]]
        for t in ths:
            t.start()
        for t in ths:
            t.join()
    return cases, gores, stats, results


def run_driver(ctx, prop, cases, args=None, shards=8):
    """run the Lean model driver on the case lines; returns idx -> (result, attrs)"""
    if not os.path.exists(DRIVER):
        raise CheckError("Lean driver not built: " + DRIVER)
    idxs = sorted(cases)
    out = {}
    lock = threading.Lock()
    errs = []

    def work(k):
        part = idxs[k::shards]
        if not part:
            return
        inp = "".join(f"{i}\t{cases[i]}\n" for i in part)
        p = subprocess.run([DRIVER, prop] + (args or []), input=inp, stdout=subprocess.PIPE,
                           stderr=subprocess.PIPE, text=True, timeout=3000)
        if p.returncode != 0:
            errs.append(p.stderr[-500:])
        with lock:
            for l in p.stdout.splitlines():
                f = l.split("\t")
                if len(f) >= 2 and f[0].isdigit():
                    attrs = dict(x.split("=", 1) for x in f[2:] if "=" in x)
                    out[int(f[0])] = (f[1], attrs)

    ths = [threading.Thread(target=work, args=(k,)) for k in range(shards)]
    for t in ths:
        t.start()
    for t in ths:
        t.join()
    if errs:
        raise CheckError("Lean driver failed: " + errs[0])
    return out


# --------------------------------------------------------------------------- findings, replay, evidence

def load_known():
    known, fixed = {}, []
    p = os.path.join(VERIF, "known_findings.txt")
    if os.path.exists(p):
        for l in open(p):
            l = l.strip()
            m = re.match(r"known:\s+property=(\S+)\s+id=(\S+)\s+(.*)", l)
            if m:
                known[(m.group(1), m.group(2))] = m.group(3)
            elif l.startswith("fixed:"):
                fixed.append(l)
    return known, fixed


def write_replay(ctx, kind, case, expected, observed, how, theorem=None, tag=""):
    os.makedirs(os.path.join(VERIF, "replays"), exist_ok=True)
    h = hashlib.sha1((ctx.prop + kind + json.dumps(case, sort_keys=True) + tag).encode()).hexdigest()[:10]
    path = os.path.join(VERIF, "replays", f"{ctx.prop}-{h}.json")
    obj = {"property": ctx.prop, "kind": kind, "case": case, "expected_by_model": expected,
           "observed_in_go": observed, "how": how, "seed": ctx.seed, "tier": ctx.tier}
    if theorem:
        obj["theorem"] = theorem
    with open(path, "w") as f:
        json.dump(obj, f, indent=1)
    return os.path.relpath(path, VERIF)


def violation(ctx, replay, text="", no_input=False):
    ctx.violations.append((replay, text))
    line = f"VIOLATION property={ctx.prop} replay={replay}"
    if text:
        line += " " + text
    if no_input:
        line += " no-failing-input-found"
    print(line, flush=True)


def known_finding(ctx, text):
    ctx.known.append(text)
    print(f"KNOWN-FINDING: property={ctx.prop} {text}", flush=True)


def write_evidence(ctx, level="proof"):
    os.makedirs(os.path.join(VERIF, "evidence"), exist_ok=True)
    ev = {"property_id": ctx.prop, "tier": ctx.tier, "seed": ctx.seed, "level": level,
          "coverage": ctx.coverage, "assumptions": ctx.assumptions,
          "wall_s": round(time.time() - ctx.t0, 2), "violations": len(ctx.violations)}
    if ctx.known:
        ev["known_findings_reported"] = ctx.known
    if ctx.notes:
        ev["notes"] = ctx.notes
    ev["repo"] = REPO
    # evidence/ holds the record of the last run against /repo itself; a self-validation run against
    # another tree (VERIF_REPO: seeded changes, harmless refactorings, reverted fixes) must not overwrite it
    d = os.path.join(VERIF, "evidence") if os.path.realpath(REPO) == "/repo" else os.path.join(VERIF, ".work", "evidence-other-tree")
    os.makedirs(d, exist_ok=True)
    with open(os.path.join(d, f"{ctx.prop}.json"), "w") as f:
        json.dump(ev, f, indent=1)


# --------------------------------------------------------------------------- the standard flow

def standard(ctx, spec):
    """spec keys: lean_modules, shards, rule, trusted_base, assumptions, budget_s,
    extract(ctx) optional, decode(payload)->readable optional, search(ctx)->… optional,
    extra_args(ctx) optional, post(ctx, cases, gores, model) optional"""
    thorough = ctx.tier == "thorough"
    if spec.get("extract"):
        spec["extract"](ctx)
    ctx.log("lean: building", spec["lean_modules"])
    lres = lean_check(ctx, spec["lean_modules"], leanchecker=thorough)
    cov = ctx.coverage
    cov["obligations"] = lres["obligations"]
    cov["discharged"] = lres["discharged"]
    cov["checker_cmd"] = lres.get("checker_cmd", "")
    cov["theorems"] = lres["theorems"]
    cov["axioms_used"] = lres["axioms"]
    cov["trusted_base"] = BASE_TRUSTED + spec.get("trusted_base", [])
    if lres.get("leanchecker"):
        cov["leanchecker_ok"] = lres["leanchecker"]
    ctx.assumptions += spec.get("assumptions", [])
    proof_broken = bool(lres["failures"]) or lres["discharged"] != lres["obligations"]
    if proof_broken:
        ctx.log("LEAN FAILURES:", lres["failures"])
        if any(f.startswith("lake build failed") for f in lres["failures"]):
            ctx.notes.append("the Lean build failed: the model driver used for the correspondence below is the last one "
                             "that built (possibly stale); the violation is reported from the broken obligation")

    ctx.log("go: building harness against", REPO)
    binp = go_build(ctx)
    ctx.harness = binp
    shards = spec.get("shards", 8)
    budget = spec.get("budget_s", 600 if not thorough else 3000)
    extra = spec["extra_args"](ctx) if spec.get("extra_args") else []
    try:
        cases, gores, stats, infos = run_cases(ctx, binp, ctx.prop, shards=shards, extra=extra, budget_s=budget)
    except RealCodeCrash as e:
        rp = write_replay(ctx, "crash-outside-case", {"output": str(e)[-1500:]},
                          "the real code does not crash while the harness prepares its cases (it calls the lexer / parser / "
                          "interpreter to build payloads)", "Go panic / fatal error with frames in the tree under test",
                          f"./check {ctx.prop}   (the crash happens while cases are generated)")
        violation(ctx, rp, "the real code crashed while the cases were being generated: " + " ".join(str(e).split())[-160:])
        ctx.coverage.setdefault("evaluations", 0)
        ctx.coverage.setdefault("distinct_nontrivial", 0)
        ctx.coverage["samples"] = [{"crash": str(e)[-300:]}]
        write_evidence(ctx)
        return 1
    ctx.log(f"harness: {len(cases)} cases, {sum(len(i['crashes']) for i in infos.values())} crashes, "
            f"{sum(i['restarts'] for i in infos.values())} restarts")
    if os.path.exists(DRIVER):
        model = run_driver(ctx, ctx.prop, cases, shards=shards)
    else:
        model = {}
    known, _ = load_known()
    dec = spec.get("decode", lambda p: p)
    # SPEC["equal"](go_result, model_result, attrs) -> bool: an optional, pure comparison for result lines with
    # several sections of which the model may declare some as outside itself (default: identical lines)
    eq = spec.get("equal", lambda g, m, attrs: g == m)
    bad, kf_hits, nontrivial, outside = [], {}, set(), 0
    for i in sorted(cases):
        g = gores.get(i, "MISSING-RESULT")
        m, attrs = model.get(i, ("MISSING-MODEL-RESULT", {}))
        if m.startswith("UNSUP") or attrs.get("skip") == "1":
            # the case is outside the model (stated by the model itself): not compared, but a
            # crash / hang / panic of the real code is still a violation of any property here
            outside += 1
            if g.startswith(("CRASH", "PANIC", "HANG")):
                bad.append(i)
            continue
        if attrs.get("nt") == "1":
            nontrivial.add(cases[i])
        if eq(g, m, attrs):
            if "kf" in attrs:
                kf_hits.setdefault(attrs["kf"], []).append(i)
            continue
        if "spec" in attrs and eq(g, attrs["spec"], attrs):
            continue
        bad.append(i)
    cov["evaluations"] = len(cases)
    cov["distinct_nontrivial"] = len(nontrivial)
    cov["rule"] = spec.get("rule", "")
    cov["input_distribution"] = stats
    cov["disagreements"] = len(bad)
    cov["outside_model_not_compared"] = outside
    cov["crashes"] = sum(len(i["crashes"]) for i in infos.values())
    sample_idx = sorted(cases)[:: max(1, len(cases) // 6)][:6]
    cov["samples"] = [{"case": dec(cases[i]), "go": gores.get(i), "model": model.get(i, ("", {}))[0]} for i in sample_idx]
    if spec.get("exhaustive"):
        cov["exhaustive"] = False
        cov["exhaustive_part"] = spec["exhaustive"]
    if spec.get("post"):
        spec["post"](ctx, cases, gores, model)

    # known findings
    for kid, idxs in sorted(kf_hits.items()):
        if (ctx.prop, kid) in known:
            known_finding(ctx, f"id={kid} {known[(ctx.prop, kid)]} ({len(idxs)} cases, e.g. {dec(cases[idxs[0]])})")
        else:
            i = idxs[0]
            rp = write_replay(ctx, "input", {"payload": cases[i], "readable": dec(cases[i])},
                              model[i][1].get("spec", "spec differs"), gores.get(i),
                              f"./check {ctx.prop} --replay <this file>", tag="kf")
            violation(ctx, rp, f"unlisted finding class {kid}")
    # disagreements: smallest payloads first
    bad.sort(key=lambda i: (len(cases[i]), i))
    seen_payloads, report = set(), []
    for i in bad:
        if cases[i] not in seen_payloads:
            seen_payloads.add(cases[i])
            report.append(i)
        if len(report) == 3:
            break
    for i in report:
        rp = write_replay(ctx, "input", {"payload": cases[i], "readable": dec(cases[i])},
                          model.get(i, ("MISSING", {}))[0], gores.get(i, "MISSING"),
                          f"./check {ctx.prop} --replay <this file>")
        violation(ctx, rp, f"go={gores.get(i, 'MISSING')[:80]!r} model={model.get(i, ('MISSING', {}))[0][:80]!r}")
    if proof_broken and not bad:
        # proof / obligation broken and no failing input among the generated cases: search harder
        found = spec["search"](ctx) if spec.get("search") else None
        if found:
            violation(ctx, found)
        else:
            rp = write_replay(ctx, "obligation", {"failures": lres["failures"], "theorems": lres["theorems"]},
                              "all property theorems check with allowed axioms", "see failures",
                              "cd lean && lake build " + " ".join(spec["lean_modules"]),
                              theorem="; ".join(lres["failures"])[:500])
            violation(ctx, rp, no_input=True)
    cov["disagreements_reported"] = min(3, len(bad))
    write_evidence(ctx)
    return 1 if ctx.violations else 0


def replay(ctx, spec, path):
    obj = json.load(open(path))
    case = obj.get("case", {})
    if "payload" not in case:
        print("replay of kind", obj.get("kind"), ":", json.dumps(obj, indent=1))
        lres = lean_check(ctx, spec["lean_modules"])
        print("lean:", lres["failures"] or "all theorems check")
        return 1 if lres["failures"] else 0
    binp = go_build(ctx)
    extra = spec["extra_args"](ctx) if spec.get("extra_args") else []
    p = subprocess.run([binp, ctx.prop, "-one", case["payload"]] + extra, stdout=subprocess.PIPE,
                       stderr=subprocess.STDOUT, text=True, cwd=ctx.work, env=GOENV, timeout=600)
    lines = [l for l in p.stdout.splitlines() if l.strip()]
    go = lines[0] if (lines and p.returncode in (0, 3, 4)) else "CRASH " + " ".join(p.stdout.split())[:300]
    lock = _lean_lock()
    try:
        sh(["lake", "build", "driver"], cwd=LEAN)
    finally:
        lock.close()
    model = run_driver(ctx, ctx.prop, {0: case["payload"]}, shards=1)
    m, attrs = model.get(0, ("MISSING", {}))
    print("case  :", case.get("readable", case["payload"]))
    print("go    :", go)
    print("model :", m, attrs)
    eq = spec.get("equal", lambda g, m, attrs: g == m)
    ok = eq(go, m, attrs) or ("spec" in attrs and eq(go, attrs["spec"], attrs))
    print("agree :", ok)
    if not ok:
        print(f"VIOLATION property={ctx.prop} replay={os.path.relpath(path, VERIF)}")
    return 0 if ok else 1
