module verifharness

go 1.21

require (
	github.com/krotik/common v1.4.4
	github.com/krotik/ecal v0.0.0
)

replace github.com/krotik/ecal => /tmp/r-C16
